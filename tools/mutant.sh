#!/bin/sh
# usage: tools/mutant.sh <ID> <sed-expr|patchfile> [file-relative-to-repo]   -- run quick check of <ID> against a mutated scratch copy of /repo
# The scratch copy lives under /tmp and is removed afterwards. Nothing registered in MANIFEST.json uses this.
ID=$1; MUT=$2; FILE=$3
D=$(mktemp -d /tmp/vp_mut.XXXXXX)
mkdir -p $D/repo && cp -r /repo/rich $D/repo/rich
if [ -f "$MUT" ]; then (cd $D/repo && patch -s -p1 < "$MUT") || { echo "patch failed"; rm -rf $D; exit 3; }
else sed -i "$MUT" $D/repo/$FILE; diff -q /repo/$FILE $D/repo/$FILE >/dev/null && { echo "sed changed nothing"; rm -rf $D; exit 3; }; fi
cd /verif && VERIF_RICH_PATH=$D/repo /venv/bin/python -B -m vp $ID --tier quick --no-evidence ${VP_ARGS:-} | grep -v "^  part" | head -${LINES_MAX:-12}
rc=$?
rm -rf $D
