#!/venv/bin/python
"""Re-run every stored seeded change against the current checks (not a registered check).
For each /verif/seeded/<name>: scratch worktree of /repo HEAD under /tmp, apply patch.diff (skip with a note if it no longer applies), run the quick check of the
property that detected it (VERIF_RICH_PATH), expect exit 1.  usage: tools/seed_recheck.py [--update] [-j N] [NAME ...]"""
import json, os, subprocess, sys, tempfile, shutil, glob
from concurrent.futures import ThreadPoolExecutor
V = os.path.dirname(os.path.dirname(os.path.abspath(__file__)))
args = sys.argv[1:]
UPDATE = "--update" in args  # write the outcome back into meta.json (detected_by / detected)
args = [a for a in args if a != "--update"]
jobs = 3
if args[:1] == ["-j"]:
    jobs = int(args[1]); args = args[2:]
names = args or sorted(os.path.basename(os.path.dirname(p)) for p in glob.glob(os.path.join(V, "seeded", "*", "meta.json")))
def sh(cmd):
    return subprocess.run(cmd, shell=True, stdout=subprocess.PIPE, stderr=subprocess.STDOUT, text=True)
def one(name):
    d = os.path.join(V, "seeded", name)
    meta = json.load(open(os.path.join(d, "meta.json")))
    if meta.get("discarded"):
        return name, "discarded", ""
    props = ([os.environ["SEED_PROP"]] if os.environ.get("SEED_PROP") else None) or [p for p, r in meta.get("detected_by", {}).items() if r.get("exit") == 1] or [meta["property"]]
    wt = tempfile.mkdtemp(prefix="vp_re_"); os.rmdir(wt)
    try:
        if sh("git -C /repo worktree add -q --detach %s HEAD" % wt).returncode != 0:
            return name, "worktree-failed", ""
        if sh("git -C %s apply %s" % (wt, os.path.join(d, "patch.diff"))).returncode != 0:
            if sh("git -C %s apply --3way %s" % (wt, os.path.join(d, "patch.diff"))).returncode != 0:
                return name, "patch-conflict", ""
        for p in props:
            q = sh("cd %s && VERIF_RICH_PATH=%s /venv/bin/python -B -m vp %s --tier quick --no-evidence" % (V, wt, p))
            if q.returncode == 1:
                if UPDATE:
                    import re
                    meta.setdefault("detected_by", {})[p] = {"exit": 1, "sigs": re.findall(r"sig=(\S+)", q.stdout)[:6]}
                    meta["detected"] = True
                    meta.setdefault("ran", []).append("re-run: VERIF_RICH_PATH=<worktree> python -m vp %s --tier quick -> exit 1" % p)
                    json.dump(meta, open(os.path.join(d, "meta.json"), "w"), indent=1)
                return name, "detected", p
            if q.returncode == 2:
                return name, "harness-error", p
        return name, "MISSED", ",".join(props)
    finally:
        sh("git -C /repo worktree remove --force %s" % wt); shutil.rmtree(wt, ignore_errors=True)
with ThreadPoolExecutor(jobs) as ex:
    res = list(ex.map(one, names))
for r in res:
    print("%-8s %-16s %s" % r, flush=True)
print("not detected:", [r[0] for r in res if r[1] not in ("detected", "discarded")])
