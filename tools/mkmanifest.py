#!/venv/bin/python
"""Regenerate MANIFEST.json from the table below (kept here so the manifest stays valid and current)."""
import json, os
V = os.path.dirname(os.path.dirname(os.path.abspath(__file__)))
PY = "/venv/bin/python -B -m vp"
CLAIMED = {
 "C13": dict(
   technique="exhaustive enumeration of all code points + Hypothesis property tests against a linear-scan width oracle and a per-character line model",
   level="exploration",
   text="All 1,114,112 code points are compared with a linear scan of the width table in every run (that part is exhaustive); cache histories, set_cell_size, chop_cells and the Segment line-shaping helpers are explored with generated cases against reference models. Exploration is the right level: the domains beyond the code points are unbounded.",
   note="Trusts rich/_cell_widths.py as the Unicode width table (well-formedness and stable blocks are spot-checked); None style == null style.",
   ref="5 C13"),
}
CLAIMED["C18"] = dict(
   technique="exhaustive enumeration (all 2^24 RGB colours: x the two 16-colour systems in the quick tier, x all four systems in the thorough tier; plus a grid + boundary lattice x all systems in the quick tier) + Hypothesis-generated colours, style histories and scheduled threads against an independent integer-metric argmin oracle",
   level="exploration",
   text="Every clause (gamut, idempotence, unchanged-when-representable, default, nearest palette entry, grey ramp, SGR table) is evaluated on every colour of the enumerated domain for all four target systems; the thorough tier enumerates all 16,777,216 RGB colours and all indexed colours, so that part is exhaustive. The quick tier enumerates all RGB colours for the standard and windows palettes (nearest entry, gamut) and a stratified sample for the other clauses, hence exploration.",
   note="Trusts rich/_palettes.py as the palette data; the distance metric is re-implemented (numpy int64, or pure Python) and any entry at minimum distance is accepted.",
   ref="5 C18")
CLAIMED["C06"] = dict(
   technique="Hypothesis property tests: algebraic laws and field-wise comparison with a dict-merge reference, str/normalize round trip, documented-spelling table, eq=>hash over 12 construction routes",
   level="exploration",
   text="Associativity, identity and right bias are checked on generated triples over the full attribute x colour x link space; parse(str(s)) and parse(normalize(str(s))) on generated styles; each documented spelling against the keyword-built style; eq=>hash and dict lookup over all pairs of construction routes of one style. The space is unbounded (colours, links), so exploration is the honest level.",
   note="Links non-empty and whitespace-free, rgb() without spaces, lower-case spellings from docs/source/style.rst; colour names are ignored by the field-wise view but not by ==.",
   ref="5 C06")
CLAIMED["C04"] = dict(
   technique="exhaustive enumeration of all strings over an 11-symbol markup alphabet (escape round trip, standalone and embedded) + Hypothesis tag-event documents against a reference tag-stack interpreter",
   level="exploration",
   text="escape(): every string up to length 6 (quick) / 7 (thorough) over the alphabet the property names is enumerated (that part is exhaustive) and longer strings over a wider alphabet are generated; styling: generated documents of open/close/close-any/text events are interpreted by an independent stack model (precedence by opening order, normalised closing names, MarkupError exactly when nothing matches) and compared per character with the rendered Text.",
   note="emoji=False for the escape round trip; embedded form under the statement's side condition; tag set fixed to 15 tags covering aliases, word order, negation, link=, hex colours and a non-style name.",
   ref="5 C04")
CLAIMED["C05"] = dict(
   technique="model-based Hypothesis testing: generated histories of 26 Text operations replayed against a list-of-(character, ordered styles) reference model after every step",
   level="exploration",
   text="Every generated history (<=12 operations over a pool of Text values built four different ways, raw integer offsets inside/at/beyond the ends and negative) is executed on the real Text and on an ordinary-list model; plain text, len() and per-character effective style are compared after each operation, and style-only operations must leave the characters unchanged.",
   note="Constructor spans inside the text; inserted padding / tab fill / ellipsis characters have unconstrained style; join separators carry no base style; divide offsets sorted within the text.",
   ref="5 C05")
CLAIMED["C02"] = dict(
   technique="Hypothesis property test over unique-character texts: bijection on non-space characters, per-character style = independent span fold, fit, and word-break rule",
   level="exploration",
   text="Generated texts whose non-space characters are all distinct are wrapped through Text.wrap and through console rendering at generated widths/justify/overflow/no_wrap/tab sizes; because each output character identifies its input offset, dropping, duplication, reordering, wrong styles and illegitimate word breaks are all decided exactly per case.",
   note="Unique non-space characters per case; padding and ellipsis exempt from the style clause; str.isspace() whitespace; tabs expand as str.expandtabs per line.",
   ref="5 C02")
CLAIMED["C03"] = dict(
   technique="Hypothesis property test with an independent SGR / OSC-8 stream interpreter as oracle, over print/control histories and ordered pairs of colour systems sharing Style objects",
   level="exploration",
   text="Generated print/control histories are written through consoles of two colour systems in sequence with shared Style objects; the emitted characters are decoded by a hand-written SGR/OSC-8 interpreter and compared per character (attributes, fg, bg after down-conversion, link), plus the no-escape / no-colour / no-control stream clauses and the no-leak final state.",
   note="Down-conversion itself is trusted here (C18 checks it); segment text has no ESC/C0 controls; console 1000 cells wide so no wrapping.",
   ref="5 C03")
CLAIMED["C20"] = dict(
   technique="model-based Hypothesis testing: nested push/pop/use_theme histories (with exceptions) against a reference stack of (definitions, inherit); config-text round trip",
   level="exploration",
   text="Generated histories of push_theme/pop_theme/nested use_theme blocks (normal and exceptional exit) are executed on a real Console and on a reference stack; after every step all pool names, style definitions and unparseable names are looked up and compared, popping the base must raise and change nothing; Theme.config is read back with from_file for generated themes.",
   note="Names follow the documented grammar; DEFAULT_STYLES is the reference for built-in names; use_theme bodies are kept balanced so that each block's pop matches its own push.",
   ref="5 C20")
CLAIMED["C16"] = dict(
   technique="Hypothesis property test: eval() round trip with structural equality, differential against repr() and against an independent single-line reference printer, line-discipline predicates",
   level="exploration",
   text="Generated values nested to depth 6 over all listed container and leaf types are printed at generated widths/indent sizes/expand_all and evaluated back (same types at every level); for built-in containers the output must equal repr() whenever that fits; expanded output must indent one level at a time and no over-wide line may hold a collapsed non-empty container; abbreviation markers and cyclic values are compared with a reference printer.",
   note="Finite floats; defaultdict factory reprs rewritten for eval as for Python's own repr; deque maxlen is not part of equality.",
   ref="5 C16")
CLAIMED["C19"] = dict(
   technique="Hypothesis property tests: encoder->decoder round trip, and a differential between the raw written stream and the console output through FileProxy / Live-redirected stdout, both decoded by an independent SGR/OSC-8 interpreter",
   level="exploration",
   text="Round trip: generated styled segments printed in truecolor are decoded with AnsiDecoder and compared per line and per character. Redirection: generated streams of SGR/OSC-8 coded lines (from an independent encoder) are cut into write() calls at arbitrary offsets, interleaved with flushes, fed to FileProxy and to sys.stdout under a Live; the console output must decode to the same (char, attrs, fg, bg, link) sequence, each complete line exactly once and in order, one new line per non-empty flush.",
   note="Flushes do not fall inside an escape sequence; lines <= 150 cells on a 200-cell console; SGR and OSC-8 only; attributes compared as the set that is on.",
   ref="5 C19")
CLAIMED["C15"] = dict(
   technique="Hypothesis history testing with a twin console: exports compared with the file stream decoded by an independent SGR/OSC-8 interpreter; capture compared with the twin's writes",
   level="exploration",
   text="Generated histories of print/log/rule/line/control/capture/export operations run on a recording console and on a twin with the same configuration; at every export the plain text export, the HTML export (tags removed, entities decoded) and the styled export (decoded) are compared with the visible text written to the file since the last clearing export, clear/no-clear semantics are checked by repeated exports, and capture blocks must leave the file untouched and return exactly what the twin wrote.",
   note="Record-vs-file comparison is suspended between a capture block and the next clearing export (captured text is also recorded in this version); log() uses log_path=False and a generated clock.",
   ref="5 C15")
CLAIMED["C01"] = dict(
   technique="Hypothesis property test over generated renderable trees and widths from the structural minimum; validity predicate = every rendered line measured with an independent cell-width oracle is <= W",
   level="exploration",
   text="Trees of all listed renderables (depth <= 4, every listed layout option, mixed-width content with newlines) are rendered with Console.render (no final crop) at widths biased to the structural minimum + {0..3}; each output line is measured by a linear-scan width table, not rich.cells.",
   note="Free-to-wrap option space (no explicit widths, ratio >= 1); ProgressBar only inside line-based containers (known finding F3); structural minimum as defined in DESIGN section 3.",
   ref="5 C01")
CLAIMED["C09"] = dict(
   technique="Hypothesis differential between Measurement.get and rendering at the measured minimum/maximum (independent width oracle) + exact word/line formulas for text",
   level="exploration",
   text="For generated trees and available widths 0..200 the measurement must satisfy 0 <= min <= max <= available, and rendering at the reported minimum and maximum (when at or above the structural minimum) must not produce a wider line; for tab-free text the minimum/maximum must equal the widest word/line and wrapping at the maximum must reproduce the newline-split lines.",
   note="Same option domain as C01; measurement taken on a 200-cell console with explicit available width.",
   ref="5 C09")
CLAIMED["C14"] = dict(
   technique="exhaustive enumeration of token-alphabet strings per entry point + Hypothesis random Unicode + Hypothesis renderable trees over the whole option space, with an exception-type allow-list oracle; atheris coverage-guided fuzzing of the parsers in the thorough tier",
   level="exploration",
   text="Every string of up to 3 (quick) / 4 (thorough) syntax-significant tokens is fed to each of ten entry points and any exception outside the documented type is a violation bucketed by (type, innermost rich frame); random surrogate-free Unicode and generated renderable trees with every valid option at widths 1..200 (render, print, measure; non-termination caught by a render-call counter) extend the search; the thorough tier adds an atheris campaign from an empty and a token corpus.",
   note="Documented outcomes per entry point as listed in the evidence assumptions; ratio 0 and widths below the structural minimum are in this domain (must not crash).",
   ref="5 C14")
CLAIMED["C17"] = dict(
   technique="Hypothesis property tests: gutter-split rendered lines compared with the source lines (differential against str.split/expandtabs); generated raising modules rendered through Traceback and compared with linecache",
   level="exploration",
   text="Generated sources (leading/interior/trailing blank lines, tabs, wide characters, with/without final newline) are rendered under generated lexer/option/width combinations; each output line is split into marker, number and text and compared with (start_line + i, source line i) for the selected range, at wide widths exactly and at narrow widths for the numbers; generated modules that raise at a chosen line are imported and rendered through Traceback.from_exception, and every frame must mark the line linecache reports.",
   note="CRLF-free sources; line_range only together with line numbers; trailing blank lines not compared; temp modules are written outside /repo and /verif and removed per case.",
   ref="5 C17")
CLAIMED["C07"] = dict(
   technique="Hypothesis property test over tables with unique-character cells: rectangle / expand-exact / row-integrity / per-column containment predicates read off the rendered characters",
   level="exploration",
   text="Generated tables (all listed table and column options, multi-line and wide-character cells, nested panels) are rendered at widths from the structural minimum; because every cell character is unique, the check decides exactly whether body lines form a rectangle of the right width, rows keep to their own lines in insertion order, and every character of a fold column appears once, in order, inside a cell range disjoint from the other columns; title/caption may only surround the body.",
   note="ratio >= 1, max_width >= 2, table width <= available width; losses in columns the width solver allotted less than their structural need are known findings F1/F4 (classified with the table's own column-width calculation).",
   ref="5 C07")
CLAIMED["C08"] = dict(
   technique="Hypothesis property tests: differential between a frame and its child rendered alone at the inner width; position predicates for rules, bars, columns (unique tokens) and trees (unique labels)",
   level="exploration",
   text="For generated Panel/Padding/Align/Constrain/Styled frames the child is rendered alone at the inner width and must re-appear verbatim at the right offset inside an exact rectangle with exactly the requested border and padding cells (utf-8, ascii-only and legacy-windows consoles); rules must be one line of exactly W cells, bars exactly/at most their target; Columns must show every unique token once in the documented reading order and Trees every visible label once in depth-first order behind a prefix of exactly 4 cells per level.",
   note="Only the outermost frame of a case is judged; frame style none; inner widths below the child's structural minimum are outside the domain; Align uses the child's measured maximum (C09's subject).",
   ref="5 C08")
CLAIMED["C12"] = dict(
   technique="model-based Hypothesis testing of task-op histories against a sequential reference model; exhaustive (1 and 2 preemptions) and generated thread schedules run by a harness-owned deterministic scheduler; track() differential",
   level="exploration",
   text="Sequential: generated histories with generated monotone clocks are compared after every operation with an exact-rational reference model (completed, percentage, finished, fixed finish time, speed and time-remaining signs). Concurrent: real threads are serialised by a scheduler that can preempt at every traced line of rich/progress.py and every operation of the proxied progress lock; all single-preemption schedules of four fixed programs are enumerated in every run (pairs in the thorough tier) and generated programs/schedules extend the search; final counters must equal the sum of the advances and no estimate may be negative. track() is run over lists, ranges and generators with and without the helper thread.",
   note="Exact amounts (integers, quarters); Progress(disable=True) for accounting; C-level calls are atomic under the GIL; estimates are read under the progress lock as the display does.",
   ref="5 C12")
CLAIMED["C10"] = dict(
   technique="model-based Hypothesis history testing: emitted bytes replayed on a VT100-subset screen model and compared with an independently computed expected screen after every operation; fault injection at generated render indices and block positions",
   level="fault_enumeration",
   text="Generated histories over Live, Progress and Status (transient, vertical_overflow, terminal sizes, frames that grow/shrink/vanish/exceed the screen, restarts, redirected stdout) are executed; after every operation the bytes written so far are replayed on a terminal model and must show exactly the printed rows followed by the frame as of the last draw, with the cursor never above the live region and visible after stop. Fault runs make the displayed renderable raise at a generated render index (one-shot/persistent, escaping the with-block or caught by the program) or make the block body raise after j operations, and require propagation plus restoration of cursor, stdout/stderr, render hook and started flag.",
   note="auto_refresh off; single-width text; frames taller than the screen only with crop/ellipsis; Progress tables within the screen height; expected printed rows come from a plain twin console.",
   ref="5 C10")
CLAIMED["C11"] = dict(
   technique="schedule exploration with a harness-owned deterministic scheduler over real threads: exhaustive single-preemption (quick) / double-preemption (thorough) schedules of fixed programs plus Hypothesis-generated programs and schedules; per-write and screen-model oracles",
   level="exploration",
   text="Real threads are serialised by a scheduler that may preempt at every traced line of the console/live/progress modules, every operation of the proxied locks and every file write; under each schedule every print/log call must reach the file in exactly one write with its single-threaded text, captures must return exactly their own thread's prints and leak nothing, the record must have the file's order, no thread may deadlock or raise, and with a display the final screen (VT model) must show the printed rows in arrival order followed by the last frame. All single-preemption schedules of seven fixed programs are enumerated in every run.",
   note="C-level calls are atomic under the GIL; auto-refresh timers are replaced by explicit refresher programs; screen mismatches under schedules that expose the hook-to-write window are the known finding F2 (exposure is read off the schedule).",
   ref="5 C11")
NOT_YET = {}
props = [json.loads(l) for l in open(os.path.join(V, "properties.jsonl"))]
checks = []
na = []
for p in props:
    pid = p["id"]
    if pid in CLAIMED:
        c = CLAIMED[pid]
        checks.append({
            "property_id": pid,
            "quick_cmd": "%s %s --tier quick" % (PY, pid),
            "thorough_cmd": "%s %s --tier thorough" % (PY, pid),
            "evidence_file": "evidence/%s.json" % pid,
            "replay_cmd_template": "%s %s --replay {path}" % (PY, pid),
            "engine": "vp",
            "level_claimed": {"category": c["level"], "text": c["text"], "design_ref": "DESIGN.md section " + c["ref"]},
            "level_note": c["note"],
            "technique": c["technique"],
        })
    else:
        na.append({"property_id": pid, "reason": NOT_YET.get(pid, "check not built yet in this round (build in progress; see DESIGN.md section 5 for the planned generated check)")})
m = {
 "version": 1,
 "setup_cmd": "./setup.sh",
 "hooks": {"guard": "RICH_VERIF", "enable": "no hooks are needed: rich is pure Python and is imported from /repo's working tree by every check (python -B, sys.path[0]=/repo)", "baseline_off_cmd": "tools/repo_tests.sh", "source_commits": [], "add_only": True},
 "engines": [{"name": "vp", "path": "vp/", "serves_properties": sorted(CLAIMED), "kind_free_text": "Hypothesis-driven spec->build->check runner with exhaustive enumeration parts, sharded over 16 processes; JSON replay files"}],
 "checks": checks,
 "notes": "Every check: exit 0 held / exit 1 with VIOLATION lines / exit 2 HARNESS-ERROR. known_findings.json lists known and fixed findings. Failures are written to out/failures/<ID>/; committed regression cases are in replays/<ID>/ and are replayed first by every run.",
 "not_applicable": na,
}
json.dump(m, open(os.path.join(V, "MANIFEST.json"), "w"), indent=1)
print("claimed", len(checks), "not claimed", len(na))
