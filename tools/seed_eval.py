#!/venv/bin/python
"""Confirm a sub-agent's seeded change and run our checks against it.

usage: tools/seed_eval.py <PROP> <change.diff> <demo.py> <name> [--what ..] [--needs ..] [--props C01,C07]
 1. fresh worktree of /repo HEAD under /tmp, apply the diff
 2. repository test suite == baseline (430 stable passes)
 3. demo exits 1 with the change, 0 without
 4. quick check(s) of the property with VERIF_RICH_PATH=<worktree>  -> detected?
 5. store /verif/seeded/<name>/{patch.diff, demo.py, meta.json}; remove the worktree
"""
import sys, os, subprocess, json, shutil, tempfile, argparse, re
ap = argparse.ArgumentParser()
ap.add_argument("prop"); ap.add_argument("diff"); ap.add_argument("demo"); ap.add_argument("name")
ap.add_argument("--what", default=""); ap.add_argument("--needs", default=""); ap.add_argument("--props", default=None)
ap.add_argument("--tier", default="quick")
a = ap.parse_args()
wt = tempfile.mkdtemp(prefix="vp_seedchk_")
os.rmdir(wt)
def sh(cmd, **kw):
    return subprocess.run(cmd, shell=True, stdout=subprocess.PIPE, stderr=subprocess.STDOUT, text=True, **kw)
meta = {"property": a.prop, "what": a.what, "needs": a.needs, "ran": []}
try:
    r = sh("git -C /repo worktree add -q --detach %s HEAD" % wt); assert r.returncode == 0, r.stdout
    r = sh("git -C %s apply --3way %s || git -C %s apply %s" % (wt, a.diff, wt, a.diff))
    meta["applies"] = r.returncode == 0
    if r.returncode != 0:
        print("PATCH DOES NOT APPLY", r.stdout[-500:])
    else:
        # tests
        junit = wt + "/junit.xml"
        sh("cd %s && PYTHONPATH=%s /venv/bin/python -B -m pytest -q -p no:cacheprovider --timeout=900 --continue-on-collection-errors --junitxml=%s tests" % (wt, wt, junit))
        import xml.etree.ElementTree as ET
        want = set(x[6:] if x.startswith('tests.') else x for x in json.load(open('/root/.vp/BASELINE.json'))['stable_pass'])
        passed = set()
        for tc in ET.parse(junit).getroot().iter('testcase'):
            if not any(ch.tag in ('failure', 'error', 'skipped') for ch in tc):
                cn = tc.get('classname'); passed.add((cn[6:] if cn.startswith('tests.') else cn) + '::' + tc.get('name'))
        os.remove(junit)
        meta["tests_missing"] = sorted(want - passed)
        meta["ran"].append("pytest tests in worktree with change: %d/%d baseline passes" % (len(want & passed), len(want)))
        d1 = sh("RICH_SRC=%s /venv/bin/python -B %s" % (wt, a.demo))
        meta["demo_with_change_exit"] = d1.returncode
        meta["demo_with_change_tail"] = d1.stdout[-400:]
        d0 = sh("RICH_SRC=/repo /venv/bin/python -B %s" % a.demo)
        meta["demo_without_change_exit"] = d0.returncode
        meta["ran"].append("demo with change exit %d, without exit %d" % (d1.returncode, d0.returncode))
        meta["confirmed"] = (not meta["tests_missing"]) and d1.returncode != 0 and d0.returncode == 0
        det = {}
        for pid in (a.props.split(",") if a.props else [a.prop]):
            c = sh("cd /verif && VERIF_RICH_PATH=%s /venv/bin/python -B -m vp %s --tier %s --no-evidence" % (wt, pid, a.tier))
            sigs = re.findall(r"sig=(\S+)", c.stdout)
            det[pid] = {"exit": c.returncode, "sigs": sigs[:6]}
            meta["ran"].append("VERIF_RICH_PATH=<worktree> python -m vp %s --tier %s -> exit %d %s" % (pid, a.tier, c.returncode, sigs[:3]))
        meta["detected_by"] = det
        meta["detected"] = any(v["exit"] == 1 for v in det.values())
finally:
    sh("git -C /repo worktree remove --force %s" % wt)
    shutil.rmtree(wt, ignore_errors=True)
out = os.path.join("/verif/seeded", a.name)
os.makedirs(out, exist_ok=True)
shutil.copy(a.diff, out + "/patch.diff"); shutil.copy(a.demo, out + "/demo.py")
json.dump(meta, open(out + "/meta.json", "w"), indent=1)
print(a.name, "applies", meta.get("applies"), "confirmed", meta.get("confirmed"), "detected", meta.get("detected"), meta.get("detected_by"))
