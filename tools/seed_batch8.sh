#!/bin/sh
# usage: tools/seed_batch8.sh C13 [--props ...] -- evaluate round-8 changes from /tmp/seed_r8/<ID>/out as <ID>-14 and <ID>-15
id=$1; shift
for k in 1 2; do /venv/bin/python - "$id" "$k" "$@" <<'PY'
import json,sys,subprocess,os
pid,k=sys.argv[1],int(sys.argv[2])
base='/tmp/seed_r8/%s/out/'%pid
notes=json.load(open(base+'notes.json'))
if k>len(notes): sys.exit(0)
n=notes[k-1]
subprocess.run(['/verif/tools/seed_eval.py',pid,base+n['file'],base+n['demo'],'%s-%d'%(pid,k+13),'--what',n['what'],'--needs',n['needs']]+sys.argv[3:])
PY
done
