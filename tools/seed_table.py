#!/venv/bin/python
"""Print a markdown table (change | what it does | caught by) for stored seeded changes whose number is in the given list. usage: tools/seed_table.py 13 14 15"""
import json, glob, os, sys, re
V = os.path.dirname(os.path.dirname(os.path.abspath(__file__)))
nums = set(sys.argv[1:])
rows = []
for d in sorted(glob.glob(os.path.join(V, "seeded", "*")), key=lambda p: (os.path.basename(p).split("-")[0], int(os.path.basename(p).split("-")[1]))):
    name = os.path.basename(d)
    if name.split("-")[1] not in nums:
        continue
    m = json.load(open(os.path.join(d, "meta.json")))
    what = re.sub(r"\s+", " ", m.get("what", "")).replace("|", "/")
    what = what[:230] + ("..." if len(what) > 230 else "")
    by = "; ".join("%s (%s)" % (p, ", ".join(r.get("sigs", [])[:2]) or "exit 1") for p, r in m.get("detected_by", {}).items() if r.get("exit") == 1) or "**not detected**"
    rows.append("| %s | %s | %s |" % (name, what, by))
print("| change | what it does | caught by (quick check: first signatures) |\n|--------|--------------|------------------------------------------|")
print("\n".join(rows))
