#!/bin/sh
# regenerate DESIGN.md section 10.6 from the code (run after adding or changing parts)
cd /verif && /venv/bin/python -B - <<'PY'
import sys, importlib
sys.path.insert(0,'/verif')
out=[]
for n in range(1,21):
    m=importlib.import_module('vp.props.c%02d'%n)
    out.append("**%s** (level: %s)" % (m.PROP_ID, m.LEVEL))
    for p in m.PARTS:
        b=p.budget
        kind = "exhaustive" if getattr(p,'exhaustive',False) else ("custom" if getattr(p,'custom',False) else "Hypothesis")
        out.append("* `%s` [%s; quick %sx%s, thorough %sx%s]: %s" % (p.name, kind, b['quick'][0], b['quick'][1], b['thorough'][0], b['thorough'][1], " ".join(p.rule.split())))
    out.append("")
p='/verif/DESIGN.md'; s=open(p).read()
head = "### 10.6 Parts of every check, as built\nGenerated from the `PARTS` of `vp/props/cNN.py` (name, driver, shards x cases per shard in the quick and thorough tier, and the part's own rule - what is generated, what is compared, what counts as non-trivial). This list supersedes the per-property sketches of section 5 where they differ.\n\n"
if "### 10.6 Parts of every check" in s:
    s = s[:s.index("### 10.6 Parts of every check")]
open(p,'w').write(s.rstrip("\n") + "\n\n" + head + "\n".join(out) + "\n")
PY
