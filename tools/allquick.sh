#!/bin/sh
# usage: tools/allquick.sh <seed> [scale]   -- run every claimed quick check at one seed, print one summary line each (no evidence written)
SEED=${1:-1}; SCALE=${2:-1}
cd /verif
for id in $(/venv/bin/python -c "import json;print(' '.join(c['property_id'] for c in json.load(open('MANIFEST.json'))['checks']))"); do
  out=$(VERIF_SEED=$SEED /venv/bin/python -B -m vp $id --tier quick --no-evidence --scale $SCALE 2>&1); rc=$?
  echo "seed=$SEED $id rc=$rc $(echo "$out" | head -1 | cut -c1-110) $(echo "$out" | grep -c '^VIOLATION') violations $(echo "$out" | grep -c '^HARNESS') harness"
  echo "$out" | grep -E "sig=|^HARNESS" | head -5 | cut -c1-300
done
