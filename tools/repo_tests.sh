#!/bin/sh
# Run the repository's pinned suite and compare with BASELINE.json's stable_pass list.
# usage: tools/repo_tests.sh   (exit 0 iff every stable_pass test still passes)
cd /repo || exit 2
OUT=$(mktemp /tmp/vp_junit.XXXXXX.xml)
/venv/bin/python -B -m pytest -q -p no:cacheprovider --timeout=900 --continue-on-collection-errors --junitxml=$OUT >/dev/null 2>&1
/venv/bin/python -B - "$OUT" <<'PY'
import sys, json, xml.etree.ElementTree as ET
base = json.load(open('/root/.vp/BASELINE.json'))
want = set(base['stable_pass'])
passed = set()
for tc in ET.parse(sys.argv[1]).getroot().iter('testcase'):
    ok = not any(ch.tag in ('failure', 'error', 'skipped') for ch in tc)
    name = tc.get('classname') + '::' + tc.get('name')
    if ok:
        passed.add(name)
missing = sorted(want - passed)
print('baseline stable_pass=%d passed_now=%d missing=%d' % (len(want), len(passed & want), len(missing)))
for m in missing[:20]:
    print('  MISSING', m)
sys.exit(1 if missing else 0)
PY
rc=$?
rm -f "$OUT"
exit $rc
