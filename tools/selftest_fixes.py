#!/venv/bin/python
"""Sensitivity self-test (not a registered check): for every `fixed` entry of known_findings.json, undo its fix commit in a scratch
worktree under /tmp and run the property's quick check against it (VERIF_RICH_PATH); the check must exit 1.  Also runs the regression
replay of the entry.  Prints one line per entry.  usage: tools/selftest_fixes.py [ID ...]"""
import json, os, subprocess, sys, tempfile, shutil, re
V = os.path.dirname(os.path.dirname(os.path.abspath(__file__)))
C = json.load(open(os.path.join(V, "known_findings.json")))
only = set(sys.argv[1:])
def sh(cmd):
    return subprocess.run(cmd, shell=True, stdout=subprocess.PIPE, stderr=subprocess.STDOUT, text=True)
rows = []
for e in C["findings"]:
    if e["status"] != "fixed" or (only and e["id"] not in only):
        continue
    wt = tempfile.mkdtemp(prefix="vp_self_"); os.rmdir(wt)
    try:
        assert sh("git -C /repo worktree add -q --detach %s HEAD" % wt).returncode == 0
        r = sh("cd %s && git show %s | git apply -R --3way" % (wt, e["commit"]))
        if r.returncode != 0:
            rows.append((e["id"], e["property"], "REVERT-CONFLICT", "")); continue
        rp = sh("cd %s && VERIF_RICH_PATH=%s /venv/bin/python -B -m vp %s --replay %s" % (V, wt, e["property"], os.path.join(V, e["replay"])))
        q = sh("cd %s && VERIF_RICH_PATH=%s /venv/bin/python -B -m vp %s --tier quick --no-evidence" % (V, wt, e["property"]))
        sigs = re.findall(r"sig=(\S+)", q.stdout)
        rows.append((e["id"], e["property"], "replay=%d quick=%d" % (rp.returncode, q.returncode), " ".join(sigs[:3])))
    finally:
        sh("git -C /repo worktree remove --force %s" % wt); shutil.rmtree(wt, ignore_errors=True)
    print("%-7s %-4s %-22s %s" % rows[-1], flush=True)
bad = [r for r in rows if "quick=1" not in r[2]]
print("undetected or conflicting:", [r[0] for r in bad])
