#!/bin/sh
# usage: tools/seed_batch4.sh C13 [--props ...] -- evaluate round-7 changes from /tmp/seed_out7/<ID> as <ID>-13
id=$1; shift
for k in 1 2; do /venv/bin/python - "$id" "$k" "$@" <<'PY'
import json,sys,subprocess,os
pid,k=sys.argv[1],int(sys.argv[2])
notes=json.load(open('/tmp/seed_out7/%s/notes.json'%pid))
if k>len(notes): sys.exit(0)
n=notes[k-1]
subprocess.run(['/verif/tools/seed_eval.py',pid,'/tmp/seed_out7/%s/%s'%(pid,n['file']),'/tmp/seed_out7/%s/%s'%(pid,n['demo']),'%s-%d'%(pid,k+12),'--what',n['what'],'--needs',n['needs']]+sys.argv[3:])
PY
done
