"""CLI: python -B -m vp <ID> --tier quick|thorough [--replay file] [--parts a,b] [--scale x]

exit 0  property held on everything explored (KNOWN-FINDING lines possible)
exit 1  VIOLATION property=<id> replay=<path>   (one line per distinct root-cause signature)
exit 2  HARNESS-ERROR ...                         (never a VIOLATION line)
"""
import os
import sys
import re
import json
import time
import glob
import argparse
import importlib
import traceback
import multiprocessing

from . import core
from .core import Ctx, SutError, ShardStats, canon

VERIF = core.VERIF_DIR
TIER_CAP = {"quick": 240.0, "thorough": 3600.0}  # wall-clock cap per property run (inconclusive, never a violation)
SHRINK_BUDGET = {"quick": 25.0, "thorough": 240.0}


def load_prop(pid):
    core.setup_import()
    return importlib.import_module("vp.props." + pid.lower())


def load_known(pid):
    path = os.path.join(VERIF, "known_findings.json")
    if not os.path.exists(path):
        return []
    with open(path) as f:
        data = json.load(f)
    return [e for e in data.get("findings", []) if e.get("property") == pid]


class Known:
    def __init__(self, entries):
        self.entries = [e for e in entries if e.get("status") == "known"]
        self._rx = [(e, re.compile(e["matcher"])) for e in self.entries]

    def match(self, sig):
        for e, rx in self._rx:
            if rx.search(sig):
                return e
        return None


MEM_LIMIT = int(os.environ.get("VERIF_MEM_GB", "2")) << 30


class _Failure(Exception):
    pass


def run_case(part, spec, ctx):
    """Run one case. Returns None, or a harness-error string."""
    out_of_memory = False
    try:
        part.check(spec, ctx)
    except SutError as e:
        ctx.violation("unexpected-exception", "%s/exc/%s" % (part.prop_id, e.bucket), repr(e.exc))
    except MemoryError:
        out_of_memory = True  # nothing may be allocated until the frames of check() are released
    except (KeyboardInterrupt, SystemExit):
        raise
    except BaseException:  # harness / oracle bug
        return traceback.format_exc()
    if out_of_memory:
        import gc

        gc.collect()
        ctx.violation("unexpected-exception", "%s/exc/MemoryError" % part.prop_id,
                      "the operation exhausted the %d GB address-space cap of the worker (runaway allocation in the code under test)" % (MEM_LIMIT >> 30))
    return None


def hyp_shard(part, tier, shard, nshards, seed, stats, deadline, known, examples):
    import hypothesis
    from hypothesis import given, settings, HealthCheck, Phase

    # Hypothesis puts repr(strategy) into the note it attaches to an exception raised while drawing; for the recursive tree strategies that repr is
    # hundreds of megabytes (MemoryError under the address-space limit, which then hides the original exception): keep composite reprs short
    try:
        from hypothesis.strategies._internal import strategies as _S
        from hypothesis.strategies._internal.lazy import LazyStrategy as _L
        from hypothesis.strategies._internal.deferred import DeferredStrategy as _D

        _S.OneOfStrategy.__repr__ = lambda self: "one_of(<%d alternatives>)" % len(self.original_strategies)
        _L.__repr__ = lambda self: "%s(...)" % getattr(self.function, "__name__", "lazy")
        _D.__repr__ = lambda self: "deferred(...)"
    except Exception:  # noqa
        pass

    strat = part.strategy(tier)
    excluded = set()
    state = {"dead": False, "fail_t": None}
    shrink_budget = SHRINK_BUDGET[tier]

    def body(spec):
        if state["dead"]:
            return
        if time.time() > deadline:  # tier wall-clock cap: wind down quickly, what was explored so far is reported
            stats.capped = True
            return
        if state["fail_t"] is not None and time.time() - state["fail_t"] > shrink_budget:
            stats.shrink_budget_hit = True
            return
        ctx = Ctx()
        err = run_case(part, spec, ctx)
        if err is not None:
            state["dead"] = True
            stats.harness_error = "part=%s spec=%s\n%s" % (part.name, canon(spec)[:3000], err)
            return
        stats.note_case(spec, ctx)
        new = None
        for v in ctx.violations:
            e = known.match(v.sig)
            if e is not None:
                stats.excluded_known[e["id"]] = stats.excluded_known.get(e["id"], 0) + 1
                continue
            if v.sig in excluded:
                continue
            size = len(canon(spec))
            cur = stats.found.get(v.sig)
            if cur is None or size < cur["size"]:
                stats.found[v.sig] = {"spec": spec, "clause": v.clause, "detail": v.detail, "size": size, "part": part.name}
            if new is None:
                new = v
        if new is not None:
            if state["fail_t"] is None:
                state["fail_t"] = time.time()
            raise _Failure(new.sig)

    done = 0
    chunk_i = 0
    rounds_with_failure = 0
    stats.planned += examples
    while done < examples and not state["dead"]:
        if time.time() > deadline:
            stats.capped = True
            break
        n = min(part.chunk, examples - done)
        sd = ((seed * 1000 + shard) * 1000 + chunk_i) & 0xFFFFFFFF
        chunk_i += 1
        state["fail_t"] = None
        test = given(strat)(body)
        test = hypothesis.seed(sd)(test)
        test = settings(
            max_examples=n,
            database=None,
            deadline=None,
            derandomize=False,
            report_multiple_bugs=False,
            suppress_health_check=list(HealthCheck),
            phases=[Phase.generate, Phase.shrink],
            print_blob=False,
        )(test)
        before = set(stats.found)
        try:
            test()
        except _Failure:
            pass
        except hypothesis.errors.HypothesisException as e:
            # Flaky etc. after the shrink budget turned failures into passes is expected; anything else
            # with no recorded finding is a harness problem.
            if set(stats.found) == before and not stats.shrink_budget_hit:
                stats.harness_error = "hypothesis: %r" % (e,)
                break
        except BaseException as e:  # noqa
            if set(stats.found) == before:
                stats.harness_error = "part=%s unexpected %s" % (part.name, traceback.format_exc())
                break
        newly = set(stats.found) - before
        if newly:
            excluded |= newly
            rounds_with_failure += 1
            if rounds_with_failure >= 6:
                break
        done += n
    stats.done += done


def run_task(args):
    pid, part_name, tier, shard, nshards, seed, deadline, examples = args
    try:
        import resource

        resource.setrlimit(resource.RLIMIT_AS, (MEM_LIMIT, MEM_LIMIT))  # runaway allocation in the code under test -> MemoryError, not a dead box
    except Exception:  # noqa
        pass
    try:
        mod = load_prop(pid)
        part = [p for p in mod.PARTS if p.name == part_name][0]
        part.prop_id = pid
        known = Known(load_known(pid))
        stats = ShardStats()
        if part.custom:
            stats.planned += 1
            part.run_shard(tier, shard, nshards, seed, stats, deadline, known)
        else:
            hyp_shard(part, tier, shard, nshards, seed, stats, deadline, known, examples)
        d = stats.to_dict()
    except BaseException:  # noqa
        d = ShardStats().to_dict()
        d["harness_error"] = "task %s/%s shard %d: %s" % (pid, part_name, shard, traceback.format_exc())
    d["part"] = part_name
    d["shard"] = shard
    return d


def replay_file(mod, pid, path, known):
    with open(path) as f:
        rec = json.load(f)
    part = [p for p in mod.PARTS if p.name == rec["part"]][0]
    part.prop_id = pid
    ctx = Ctx()
    if part.custom and hasattr(part, "replay"):
        err = None
        try:
            part.replay(rec["spec"], ctx)
        except SutError as e:
            ctx.violation("unexpected-exception", "%s/exc/%s" % (pid, e.bucket), repr(e.exc))
        except Exception:
            err = traceback.format_exc()
    else:
        err = run_case(part, rec["spec"], ctx)
    return rec, ctx, err


def write_failure(pid, sig, rec):
    d = os.path.join(VERIF, "out", "failures", pid)
    os.makedirs(d, exist_ok=True)
    name = re.sub(r"[^A-Za-z0-9_.-]+", "_", sig)[:120] + ".json"
    path = os.path.join(d, name)
    with open(path, "w") as f:
        json.dump(rec, f, indent=1, sort_keys=True, default=repr)
    return path


def main(argv=None):
    ap = argparse.ArgumentParser(prog="vp")
    ap.add_argument("prop")
    ap.add_argument("--tier", default=os.environ.get("VERIF_TIER", "quick"), choices=["quick", "thorough"])
    ap.add_argument("--replay")
    ap.add_argument("--parts")
    ap.add_argument("--scale", type=float, default=1.0)
    ap.add_argument("--seed", type=int, default=None)
    ap.add_argument("--jobs", type=int, default=int(os.environ.get("VERIF_JOBS", "16")))
    ap.add_argument("--no-evidence", action="store_true")
    a = ap.parse_args(argv)
    pid = a.prop.upper()
    try:
        seed = a.seed if a.seed is not None else int(os.environ.get("VERIF_SEED", "0") or 0)
    except ValueError:
        seed = 0
    t0 = time.time()
    try:
        mod = load_prop(pid)
    except BaseException:
        print("HARNESS-ERROR property=%s import failed\n%s" % (pid, traceback.format_exc()))
        return 2
    for p in mod.PARTS:
        p.prop_id = pid
    known_entries = load_known(pid)
    known = Known(known_entries)

    # ---------------------------------------------------------------- single replay
    if a.replay:
        rec, ctx, err = replay_file(mod, pid, a.replay, known)
        if err:
            print("HARNESS-ERROR property=%s replay %s\n%s" % (pid, a.replay, err))
            return 2
        bad = 0
        for v in ctx.violations:
            e = known.match(v.sig)
            if e:
                print("KNOWN-FINDING: property=%s %s" % (pid, e["text"]))
            else:
                bad += 1
                print("VIOLATION property=%s replay=%s" % (pid, a.replay))
                print("  clause=%s sig=%s\n  %s" % (v.clause, v.sig, v.detail))
        if not ctx.violations:
            print("replay: property %s held on %s" % (pid, a.replay))
        return 1 if bad else 0

    violations = []  # (sig, path, clause, detail)
    harness_errors = []
    known_lines = []
    replayed = 0

    # ---------------------------------------------------------------- committed regression corpus
    for path in sorted(glob.glob(os.path.join(VERIF, "replays", pid, "*.json"))):
        rec, ctx, err = replay_file(mod, pid, path, known)
        replayed += 1
        if err:
            harness_errors.append("replay %s: %s" % (path, err))
            continue
        for v in ctx.violations:
            e = known.match(v.sig)
            if e is None:
                violations.append((v.sig, path, v.clause, v.detail))
    # known findings are announced only while their committed regression case still reproduces
    for e in known.entries:
        path = os.path.join(VERIF, e["replay"])
        try:
            rec, ctx, err = replay_file(mod, pid, path, known)
        except Exception:
            err = traceback.format_exc()
        if err:
            harness_errors.append("known-finding replay %s: %s" % (path, err))
            continue
        if any(known.match(v.sig) is e for v in ctx.violations):
            known_lines.append("KNOWN-FINDING: property=%s %s" % (pid, e["text"]))

    # ---------------------------------------------------------------- generated search
    parts = mod.PARTS
    if a.parts:
        sel = set(a.parts.split(","))
        parts = [p for p in parts if p.name in sel]
    deadline = t0 + TIER_CAP[a.tier] * (a.scale if a.scale > 1 else 1)
    tasks = []
    for p in parts:
        shards, examples = p.budget[a.tier]
        examples = max(1, int(examples * a.scale))
        for s in range(shards):
            tasks.append((pid, p.name, a.tier, s, shards, seed, deadline, examples))
    results = []
    if tasks:
        ctxmp = multiprocessing.get_context("fork")
        with ctxmp.Pool(min(a.jobs, len(tasks)), maxtasksperchild=1) as pool:
            it = pool.imap_unordered(run_task, tasks, chunksize=1)
            grace = 120.0 if a.tier == "quick" else 600.0
            for _ in tasks:
                try:
                    results.append(it.next(timeout=max(5.0, deadline + grace - time.time())))
                except multiprocessing.TimeoutError:
                    # a worker is stuck (non-terminating call in the code under test or in the harness): inconclusive, not a violation
                    harness_errors.append("workers still running %.0fs after the tier cap; %d of %d shards finished (hang in the code under test or harness) - inconclusive" % (grace, len(results), len(tasks)))
                    pool.terminate()
                    break
    results.sort(key=lambda r: (r["part"], r["shard"]))

    # ---------------------------------------------------------------- aggregate
    evaluations = replayed
    nontriv = set()
    nontriv_distinct = 0
    classes = {}
    excluded_known = {}
    samples = []
    per_part = {}
    capped = False
    shrink_hit = False
    found = {}
    for r in results:
        evaluations += r["evaluations"]
        nontriv.update((r["part"], h) for h in r["nontrivial_hashes"])
        nontriv_distinct += r["nontrivial_count_distinct"]
        for k, v in r["classes"].items():
            classes[k] = classes.get(k, 0) + v
        for k, v in r["excluded_known"].items():
            excluded_known[k] = excluded_known.get(k, 0) + v
        pp = per_part.setdefault(r["part"], {"evaluations": 0, "distinct_nontrivial": 0, "planned": 0, "done": 0, "shards": 0, "_h": set()})
        pp["evaluations"] += r["evaluations"]
        pp["_h"].update(r["nontrivial_hashes"])
        pp["distinct_nontrivial"] += r["nontrivial_count_distinct"]
        pp["planned"] += r["planned"]
        pp["done"] += r["done"]
        pp["shards"] += 1
        for k, v in r.get("extra", {}).items():
            if isinstance(v, (int, float)) and not isinstance(v, bool):
                pp[k] = pp.get(k, 0) + v
            else:
                pp[k] = v
        capped = capped or r["capped"]
        shrink_hit = shrink_hit or r["shrink_budget_hit"]
        if r["harness_error"]:
            harness_errors.append(r["harness_error"])
        for sig, rec in r["found"].items():
            if sig not in found or rec["size"] < found[sig]["size"]:
                found[sig] = rec
    part_by_name = {p.name: p for p in mod.PARTS}
    for name, pp in per_part.items():
        pp["distinct_nontrivial"] += len(pp.pop("_h"))
        pp["exhaustive"] = bool(part_by_name[name].exhaustive) and pp["done"] >= pp["planned"]
        pp["rule"] = part_by_name[name].rule
    # samples: per part, smallest / median / largest + class samples
    for name in per_part:
        ss = []
        for r in results:
            if r["part"] == name:
                ss.extend(r["samples"])
        ss.sort(key=lambda x: x[0])
        pick = []
        if ss:
            idxs = sorted(set([0, len(ss) // 2, len(ss) - 1]))
            pick = [ss[i] for i in idxs]
            seen_tags = set()
            for s in ss:
                if s[2].startswith("class:") and s[2] not in seen_tags and len(pick) < 8:
                    seen_tags.add(s[2])
                    pick.append(s)
        for size, spec, tag in pick:
            samples.append({"part": name, "tag": tag, "case": spec})
    for sig, rec in sorted(found.items()):
        path = write_failure(pid, sig, {"property": pid, "part": rec["part"], "spec": rec["spec"], "sig": sig, "clause": rec["clause"], "detail": rec["detail"]})
        violations.append((sig, path, rec["clause"], rec["detail"]))

    distinct_nontrivial = len(nontriv) + nontriv_distinct
    wall = time.time() - t0
    exhaustive_all = bool(per_part) and all(pp["exhaustive"] for pp in per_part.values())
    seen_sigs = []
    uniq_viol = []
    for v in violations:
        if v[0] not in seen_sigs:
            seen_sigs.append(v[0])
            uniq_viol.append(v)

    if not a.no_evidence and not a.parts:
        ev = {
            "property_id": pid,
            "tier": a.tier,
            "seed": seed,
            "level": getattr(mod, "LEVEL", "exploration"),
            "coverage": {
                "evaluations": evaluations,
                "distinct_nontrivial": distinct_nontrivial,
                "rule": getattr(mod, "RULE", "") + " | " + " || ".join("%s: %s" % (p.name, p.rule) for p in mod.PARTS),
                "samples": samples[:40],
                "exhaustive": exhaustive_all,
                "parts": per_part,
                "classes": dict(sorted(classes.items())),
                "excluded_known": excluded_known,
                "replayed_regressions": replayed,
                "capped_by_wall_clock": capped,
                "shrink_budget_hit": shrink_hit,
                "rich_path": core.RICH_PATH,
            },
            "assumptions": list(getattr(mod, "ASSUMPTIONS", [])),
            "wall_s": round(wall, 2),
            "violations": len(uniq_viol),
        }
        os.makedirs(os.path.join(VERIF, "evidence"), exist_ok=True)
        tmp = os.path.join(VERIF, "evidence", pid + ".json.tmp")
        with open(tmp, "w") as f:
            json.dump(ev, f, indent=1, sort_keys=True, default=repr)
        os.replace(tmp, os.path.join(VERIF, "evidence", pid + ".json"))

    print("%s tier=%s seed=%d evaluations=%d distinct_nontrivial=%d wall=%.1fs%s" % (
        pid, a.tier, seed, evaluations, distinct_nontrivial, wall, " (capped by wall clock: inconclusive beyond what was explored)" if capped else ""))
    for name, pp in per_part.items():
        print("  part %-18s evals=%-9d nontrivial=%-8d done=%d/%d%s" % (name, pp["evaluations"], pp["distinct_nontrivial"], pp["done"], pp["planned"], " exhaustive" if pp["exhaustive"] else ""))
    if excluded_known:
        print("  excluded (known findings): %s" % excluded_known)
    for line in known_lines:
        print(line)
    for h in harness_errors[:5]:
        print("HARNESS-ERROR property=%s %s" % (pid, h))
    if uniq_viol:
        for sig, path, clause, detail in uniq_viol:
            print("VIOLATION property=%s replay=%s" % (pid, path))
            print("  clause=%s sig=%s\n  %s" % (clause, sig, detail[:600]))
        return 1
    if harness_errors:
        return 2
    return 0
