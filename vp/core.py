"""Core types shared by every property module.

A *spec* is plain JSON-able data describing one generated case.  `Part.check(spec, ctx)` builds the
rich objects from it, runs the system under test and reports violations / classification to `ctx`.
"""
import os
import sys
import json
import hashlib
import traceback

VERIF_DIR = os.path.dirname(os.path.dirname(os.path.abspath(__file__)))
RICH_PATH = os.environ.get("VERIF_RICH_PATH", "/repo")


def setup_import():
    """Make `import rich` read the tree under test (default /repo's working tree)."""
    sys.dont_write_bytecode = True
    deps = os.path.join(VERIF_DIR, ".deps")
    if os.path.isdir(deps) and deps not in sys.path:
        sys.path.append(deps)
    if RICH_PATH in sys.path:
        sys.path.remove(RICH_PATH)
    sys.path.insert(0, RICH_PATH)
    import rich  # noqa

    root = os.path.realpath(os.path.dirname(rich.__file__))
    want = os.path.realpath(os.path.join(RICH_PATH, "rich"))
    if root != want:
        raise RuntimeError("rich imported from %s, expected %s" % (root, want))


class SutError(Exception):
    """An exception that escaped from the system under test on a domain-valid call."""

    def __init__(self, exc):
        super().__init__(repr(exc))
        self.exc = exc
        self.bucket = bucket_of(exc)


def bucket_of(exc):
    """(type, innermost frame inside the rich package) - the root-cause bucket of an exception."""
    tb = traceback.extract_tb(exc.__traceback__)
    where = "?"
    for fr in tb:
        fn = fr.filename.replace("\\", "/")
        if "/rich/" in fn and "/vp/" not in fn:
            where = "%s:%s" % (os.path.basename(fn), fr.name)
    return "%s@%s" % (type(exc).__name__, where)


def sut(fn, *args, **kwargs):
    """Call into rich; anything it raises is attributed to the system under test."""
    try:
        return fn(*args, **kwargs)
    except (SutError, MemoryError):
        raise  # MemoryError: no allocation here; run_case reports it once the frames holding the memory are gone
    except Exception as exc:  # noqa
        raise SutError(exc) from exc


class Violation:
    __slots__ = ("clause", "sig", "detail")

    def __init__(self, clause, sig, detail):
        self.clause = clause
        self.sig = sig
        self.detail = detail

    def as_dict(self):
        return {"clause": self.clause, "sig": self.sig, "detail": self.detail}


class Ctx:
    """Per-case report object handed to Part.check."""

    __slots__ = ("violations", "nontrivial", "classes", "info")

    def __init__(self):
        self.violations = []
        self.nontrivial = False
        self.classes = []
        self.info = {}

    def violation(self, clause, sig, detail=""):
        if not isinstance(detail, str):
            detail = repr(detail)
        self.violations.append(Violation(clause, sig, detail[:2000]))

    def cls(self, *names):
        self.classes.extend(names)


class Part:
    """One sub-domain of a property.  Subclasses override strategy()+check() (Hypothesis-driven) or
    run_shard() (exhaustive / custom engines)."""

    name = "main"
    rule = ""
    exhaustive = False
    # tier -> (shards, examples per shard)
    budget = {"quick": (4, 500), "thorough": (16, 5000)}
    chunk = 500  # examples per Hypothesis run (one derived seed each)
    custom = False

    def strategy(self, tier):
        raise NotImplementedError

    def check(self, spec, ctx):
        raise NotImplementedError

    def run_shard(self, tier, shard, nshards, seed, stats, deadline):
        raise NotImplementedError


def canon(spec):
    return json.dumps(spec, sort_keys=True, ensure_ascii=True, separators=(",", ":"), default=repr)


def spec_hash(spec):
    return int.from_bytes(hashlib.blake2b(canon(spec).encode(), digest_size=8).digest(), "big")


class ShardStats:
    def __init__(self):
        self.evaluations = 0
        self.nontrivial_hashes = set()
        self.nontrivial_count_distinct = 0  # for enumerations whose cases are distinct by construction
        self.classes = {}
        self.samples = []  # (size, spec, tag)
        self.found = {}  # sig -> dict(spec, clause, detail, size)
        self.excluded_known = {}
        self.harness_error = None
        self.planned = 0
        self.done = 0
        self.capped = False
        self.shrink_budget_hit = False
        self.extra = {}
        self._class_sampled = set()

    def note_case(self, spec, ctx, max_samples=6):
        self.evaluations += 1
        for c in ctx.classes:
            self.classes[c] = self.classes.get(c, 0) + 1
        if ctx.nontrivial:
            h = spec_hash(spec)
            if h not in self.nontrivial_hashes:
                self.nontrivial_hashes.add(h)
                size = len(canon(spec))
                if len(self.samples) < max_samples:
                    self.samples.append((size, spec, "nontrivial"))
                else:
                    # keep the largest seen in the last slot
                    if size > self.samples[-1][0] and size < 4000:
                        self.samples[-1] = (size, spec, "largest")
                for c in ctx.classes:
                    if c not in self._class_sampled and len(self._class_sampled) < 12 and size < 3000:
                        self._class_sampled.add(c)
                        self.samples.append((size, spec, "class:" + c))

    def to_dict(self):
        return {
            "evaluations": self.evaluations,
            "nontrivial_hashes": sorted(self.nontrivial_hashes),
            "nontrivial_count_distinct": self.nontrivial_count_distinct,
            "classes": self.classes,
            "samples": [(s, sp, t) for (s, sp, t) in self.samples[:20]],
            "found": self.found,
            "excluded_known": self.excluded_known,
            "harness_error": self.harness_error,
            "planned": self.planned,
            "done": self.done,
            "capped": self.capped,
            "shrink_budget_hit": self.shrink_budget_hit,
            "extra": self.extra,
        }
