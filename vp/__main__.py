import os
import sys

if os.environ.get("PYTHONHASHSEED") != "0":
    env = dict(os.environ)
    env["PYTHONHASHSEED"] = "0"
    os.execve(sys.executable, [sys.executable, "-B", "-m", "vp"] + sys.argv[1:], env)

from .run import main

sys.exit(main())
