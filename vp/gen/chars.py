"""Shared character pools (DESIGN section 3).  Width classes are *defined* by the oracle table."""
from hypothesis import strategies as st

NARROW_ASCII = "abcdefghijklmnopqrstuvwxyzABCDEFGHIJKLMNOPQRSTUVWXYZ0123456789"
PUNCT = ".,;:!?-_+*/=()<>{}#@%&'\"|~^$"
LATIN1 = "\u00e9\u00e8\u00fc\u00f1\u00e7\u00f8\u00e5\u00df\u00c6\u00d0\u00bf\u00a1"
WIDE = "\u6f22\u5b57\u65e5\u672c\u8a9e\u4e2d\u6587\ud55c\uad6d\uc5b4\uac00\ub098\ub2e4\U0001F600\U0001F601\U0001F389\U0001F680\uff21\uff22\uff11\uff12"  # CJK, Hangul, emoji, fullwidth forms (all 2 cells)
ZERO = "\u0300\u0301\u0308\u0327\u200b\ufe0f\u20dd"  # combining marks, ZWSP, variation selector (all 0 cells)
IDEO_SPACE = "\u3000"  # wide *and* isspace()
NBSP = "\u00a0"

# unique-character pools: every non-space character of a case is distinct
UNIQ_NARROW = [chr(c) for c in range(0x21, 0x7F) if chr(c) not in "[]\\"] + [chr(c) for c in range(0xC0, 0x180)] + [chr(c) for c in range(0x400, 0x460)]
UNIQ_WIDE = [chr(c) for c in range(0x4E00, 0x4E00 + 300)] + [chr(c) for c in range(0xAC00, 0xAC00 + 100)]
UNIQ_ZERO = [chr(c) for c in range(0x300, 0x370)]


def mixed_char():
    return st.one_of(
        st.sampled_from(NARROW_ASCII),
        st.sampled_from(NARROW_ASCII + PUNCT + LATIN1),
        st.sampled_from(WIDE),
        st.sampled_from(ZERO),
        st.sampled_from(" "),
    )


def mixed_text(max_size=20, newlines=False, min_size=0):
    alts = [st.sampled_from(NARROW_ASCII), st.sampled_from(NARROW_ASCII + PUNCT + LATIN1), st.sampled_from(WIDE), st.sampled_from(ZERO), st.just(" "), st.just(" ")]
    if newlines:
        alts.append(st.just("\n"))
    return st.text(st.one_of(*alts), min_size=min_size, max_size=max_size)


def words_text(max_words=8, newlines=True, wide=True, zero=True):
    """Texts made of words separated by whitespace runs (more wrap-relevant than uniform text)."""
    pools = [st.sampled_from(NARROW_ASCII)]
    if wide:
        pools.append(st.sampled_from(WIDE))
    if zero:
        pools.append(st.sampled_from(ZERO))
    word = st.text(st.one_of(*pools), min_size=1, max_size=9)
    seps = [" ", " ", "  ", "   "]
    if newlines:
        seps += ["\n", "\n\n", " \n"]
    sep = st.sampled_from(seps)
    return st.lists(st.tuples(word, sep), min_size=0, max_size=max_words).map(lambda ws: "".join(w + s for w, s in ws).rstrip(" ") if ws else "")


_EDGE = None


def wide_edge():
    """Double-width characters that sit at the *edges* of rows of the width table (first/last code point of a row, single-code-point rows):
    the places an off-by-one in a table search shows up. Computed from the table itself."""
    global _EDGE
    if _EDGE is None:
        from rich._cell_widths import CELL_WIDTHS

        out = []
        for start, end, w in CELL_WIDTHS:
            if w == 2 and start > 0x1100 and not (0xD800 <= start <= 0xDFFF):
                if start == end:
                    out.append(chr(start))
                elif len(out) % 3 == 0:
                    out.append(chr(end))
                elif len(out) % 3 == 1:
                    out.append(chr(start))
        _EDGE = out[:60] + [chr(0xD7A3), chr(0xFF60), chr(0x30FF), chr(0x1F64F), chr(0x2705), chr(0x2B50)]
    return _EDGE
