"""Style specs (plain dicts) and their construction.  DESIGN section 3."""
from hypothesis import strategies as st

ATTRS = ["bold", "dim", "italic", "underline", "blink", "blink2", "reverse", "conceal", "strike", "underline2", "frame", "encircle", "overline"]
SGR_OF = {"bold": 1, "dim": 2, "italic": 3, "underline": 4, "blink": 5, "blink2": 6, "reverse": 7, "conceal": 8, "strike": 9, "underline2": 21, "frame": 51, "encircle": 52, "overline": 53}
NAMED16 = ["black", "red", "green", "yellow", "blue", "magenta", "cyan", "white", "bright_black", "bright_red", "bright_green", "bright_yellow", "bright_blue", "bright_magenta", "bright_cyan", "bright_white"]
NAMED256 = ["grey0", "navy_blue", "dark_blue", "orange1", "purple", "deep_pink4", "grey50", "gold1", "chartreuse3", "grey93", "grey100", "salmon1"]


def color_spec():
    byte = st.integers(0, 255)
    return st.one_of(
        st.just("default"),
        st.sampled_from(NAMED16),
        st.sampled_from(NAMED256),
        st.builds(lambda n: "color(%d)" % n, byte),
        st.builds(lambda r, g, b: "#%02x%02x%02x" % (r, g, b), byte, byte, byte),
        st.builds(lambda r, g, b: "rgb(%d,%d,%d)" % (r, g, b), byte, byte, byte),
    )


LINKS = ["https://example.org/a", "http://b.test/x?y=1", "c", "file:///tmp/z#frag", "https://example.org/app;jsessionid=A1?x=1;y=2", "https://e.example/p%20q:8080/=+", "https://GitHub.example/Org/README", "https://github.example/org/readme"]


def style_spec(links=True, max_attrs=13, color=True):
    attrs = st.dictionaries(st.sampled_from(ATTRS), st.booleans(), max_size=max_attrs)
    few = st.dictionaries(st.sampled_from(ATTRS), st.booleans(), max_size=2)
    opt_color = st.one_of(st.none(), color_spec()) if color else st.none()
    link = st.one_of(st.none(), st.none(), st.sampled_from(LINKS)) if links else st.none()
    return st.builds(lambda a, c, b, l: {"attrs": a, "color": c, "bgcolor": b, "link": l}, st.one_of(few, attrs), opt_color, opt_color, link)


# small palette whose members conflict with one another (precedence matters)
PALETTE = [
    {"attrs": {}, "color": "red", "bgcolor": None, "link": None},
    {"attrs": {}, "color": "blue", "bgcolor": None, "link": None},
    {"attrs": {}, "color": "green", "bgcolor": None, "link": None},
    {"attrs": {"bold": True}, "color": None, "bgcolor": None, "link": None},
    {"attrs": {"bold": False}, "color": None, "bgcolor": None, "link": None},
    {"attrs": {"italic": True}, "color": None, "bgcolor": None, "link": None},
    {"attrs": {"underline": True}, "color": None, "bgcolor": "yellow", "link": None},
    {"attrs": {}, "color": None, "bgcolor": "yellow", "link": None},
    {"attrs": {}, "color": None, "bgcolor": "cyan", "link": None},
    {"attrs": {}, "color": None, "bgcolor": None, "link": "https://a.example"},
    {"attrs": {}, "color": None, "bgcolor": None, "link": "https://b.example"},
    {"attrs": {"bold": True}, "color": "red", "bgcolor": None, "link": None},
]


def palette_style():
    return st.sampled_from(PALETTE)


def build_style(spec):
    from rich.style import Style

    if spec is None:
        return None
    return Style(color=spec["color"], bgcolor=spec["bgcolor"], link=spec["link"], **spec["attrs"])


def canon_color(c):
    """Canonical (kind, ...) of a rich Color irrespective of its name."""
    if c is None:
        return None
    t = c.type.name
    if t == "DEFAULT":
        return ("default",)
    if t == "TRUECOLOR":
        return ("rgb", c.triplet.red, c.triplet.green, c.triplet.blue)
    return ("idx", c.number)


def merge(*specs):
    """Reference right-biased combination on plain dicts (oracle 4.5); None entries are skipped."""
    out = {"attrs": {}, "color": None, "bgcolor": None, "link": None}
    for s in specs:
        if s is None:
            continue
        out["attrs"].update(s["attrs"])
        for k in ("color", "bgcolor", "link"):
            if s[k] is not None:
                out[k] = s[k]
    return out


def effective(spec):
    """(frozenset of attrs that are on, attrs explicitly off, color str, bgcolor str, link)."""
    on = frozenset(k for k, v in spec["attrs"].items() if v)
    off = frozenset(k for k, v in spec["attrs"].items() if not v)
    return on, off, spec["color"], spec["bgcolor"], spec["link"]


def style_view(style):
    """Observable content of a rich Style as plain data (None style == null style)."""
    from rich.style import Style

    if style is None:
        style = Style()
    attrs = {}
    for a in ATTRS:
        v = getattr(style, a)
        if v is not None:
            attrs[a] = v
    return (tuple(sorted(attrs.items())), canon_color(style.color), canon_color(style.bgcolor), style.link)


def spec_view(spec):
    """The same view computed from a spec, parsing colours through the public factory."""
    from rich.color import Color

    if spec is None:
        spec = {"attrs": {}, "color": None, "bgcolor": None, "link": None}
    c = canon_color(Color.parse(spec["color"])) if spec["color"] is not None else None
    b = canon_color(Color.parse(spec["bgcolor"])) if spec["bgcolor"] is not None else None
    return (tuple(sorted(spec["attrs"].items())), c, b, spec["link"])
