"""Renderable trees as plain data (DESIGN section 3): strategies, construction, structural minimum.

mode "free": the option space of C01/C09 (columns free to wrap: no column width/min_width/no_wrap, no table width, no overflow="ignore").
mode "any" : the whole valid option space (C14).
"""
from hypothesis import strategies as st

from . import chars as GC
from ..oracles import cells as OC

BOXES = ["ASCII", "ASCII2", "ASCII_DOUBLE_HEAD", "SQUARE", "SQUARE_DOUBLE_HEAD", "MINIMAL", "MINIMAL_HEAVY_HEAD", "MINIMAL_DOUBLE_HEAD", "SIMPLE", "SIMPLE_HEAD",
         "SIMPLE_HEAVY", "HORIZONTALS", "ROUNDED", "HEAVY", "HEAVY_EDGE", "HEAVY_HEAD", "DOUBLE", "DOUBLE_EDGE"]
JUSTIFY = ["default", "left", "center", "right", "full"]


def pad_strategy():
    n = st.integers(0, 3)
    return st.one_of(st.just([0, 1]), n.map(lambda a: [a]), st.tuples(n, n).map(list), st.tuples(n, n, n, n).map(list))


def unpack_pad(p):
    if isinstance(p, int):
        return (p, p, p, p)
    if len(p) == 1:
        return (p[0],) * 4
    if len(p) == 2:
        return (p[0], p[1], p[0], p[1])
    return tuple(p)


def text_content(small=False):
    base = GC.words_text(max_words=3 if small else 7)
    balanced = st.sampled_from(["ab" + GC.WIDE[0] + GC.ZERO[0] + "cd", (GC.WIDE[1] + GC.ZERO[1]) * 5, "x" + GC.WIDE[2] + GC.ZERO[0] + GC.WIDE[3] + GC.ZERO[2] + "yz w"])
    edge = st.lists(st.sampled_from(GC.wide_edge()), min_size=1, max_size=6).map("".join)
    return st.one_of(base, base, GC.mixed_text(10, newlines=True), balanced, edge, st.sampled_from(["", "x", GC.WIDE[0], "a" * 30, GC.WIDE[1] * 12, "a b c d e f g h i j", "ab\u2028cd ef", "x\x85y z", "p\x1cq", "one\xa0two three"]))


def title_content():
    """Titles: short texts, sometimes with a tab (titles are given as Text objects)."""
    return st.one_of(text_content(True).filter(lambda s: s.strip() != ""), st.sampled_from(["Name\tValue", "a\tb", "T", "a longer title than most",
                                                                                                   # as many zero-width as double-width characters: the cell length equals the number of characters
                                                                                                   "\u6f22 Deploy e\u0301 done", "e\u0301\u6f22 report", "\u5b57x\u0301y\u0301\u672c"]))


def title_opts():
    """Options of a Text given as a title (whole option space)."""
    return st.one_of(st.none(), st.none(), st.fixed_dictionaries({"tab_size": st.sampled_from([None, 1, 4, 8]), "overflow": st.sampled_from([None, "fold", "crop", "ellipsis", "ignore"]),
                                                                      "no_wrap": st.sampled_from([None, False, True])}))


def title_text(s, justify=None, opts=None):
    from rich.text import Text

    if opts:
        return Text(s, justify=justify, **opts)
    return Text(s, justify=justify)


def text_node(mode, small=False):
    over = ["fold", "crop", "ellipsis"] + (["ignore"] if mode == "any" else [])
    base = st.builds(
        lambda s, j, o, nw: {"k": "text", "s": s, "justify": j, "overflow": o, "no_wrap": nw},
        text_content(small), st.one_of(st.none(), st.sampled_from(JUSTIFY)), st.one_of(st.none(), st.sampled_from(over)),
        st.sampled_from([None, None, False, True] if mode == "any" else [None, False]),
    )
    if mode != "any":
        return base
    # whole option space: the text's own tab size (None = "use the console's"), tabs in the content
    tabbed = st.builds(lambda n, s, ts: dict(n, s=s, tab_size=ts), base, st.sampled_from(["a\tb", "\t", "x\t\ty\nz\t", "Name\tValue"]), st.sampled_from([None, 1, 4, 8]))
    return st.one_of(base, base, base, tabbed)


def column_spec(mode):
    over = ["fold", "crop", "ellipsis"] + (["ignore"] if mode == "any" else [])
    base = dict(
        header=st.one_of(st.just(""), text_content(True)), footer=st.one_of(st.just(""), text_content(True)), justify=st.sampled_from(JUSTIFY),
        overflow=st.sampled_from(over), ratio=st.one_of(st.none(), st.integers(0 if mode == "any" else 1, 4)),  # a zero share makes "fits" undefined for the width properties; C14 includes it
        max_width=st.one_of(st.none(), st.none(), st.integers(1, 12)),
    )
    if mode == "any":
        base.update(width=st.one_of(st.none(), st.none(), st.integers(1, 20)), min_width=st.one_of(st.none(), st.none(), st.integers(1, 20)), no_wrap=st.booleans())
    return st.fixed_dictionaries(base)


def table_node(child, mode, max_cols=4, max_rows=4):
    @st.composite
    def build(draw):
        ncols = draw(st.integers(0 if mode == "any" else 1, max_cols))
        cols = [draw(column_spec(mode)) for _ in range(ncols)]
        nrows = draw(st.integers(0, max_rows))
        rows = []
        for _ in range(nrows):
            cells = [draw(child) for _ in range(ncols)]
            rows.append({"cells": cells, "end_section": draw(st.booleans()) if draw(st.integers(0, 3)) == 0 else False})
        node = {
            "k": "table", "cols": cols, "rows": rows,
            "box": draw(st.one_of(st.none(), st.sampled_from(BOXES), st.sampled_from(BOXES))),
            "show_header": draw(st.booleans()), "show_footer": draw(st.booleans()), "show_edge": draw(st.booleans()), "show_lines": draw(st.booleans()),
            "leading": draw(st.sampled_from([0, 0, 0, 1, 2, 3])), "padding": draw(pad_strategy()), "pad_edge": draw(st.booleans()),
            "collapse_padding": draw(st.booleans()), "expand": draw(st.booleans()),
            "title": draw(st.one_of(st.none(), st.none(), text_content(True), title_content())), "caption": draw(st.one_of(st.none(), st.none(), text_content(True))),
            "title_text_justify": draw(st.sampled_from([None, None, "left", "center", "right"])),
        }
        if mode == "any":
            node["title_opts"] = draw(title_opts())
            node["width"] = draw(st.one_of(st.none(), st.none(), st.integers(1, 60)))
            node["min_width"] = draw(st.one_of(st.none(), st.none(), st.integers(1, 60)))
        return node

    return build()


def tree_node(label, depth=0):
    kids = st.lists(st.deferred(lambda: tree_node(label, depth + 1)), max_size=3) if depth < 3 else st.just([])
    return st.builds(lambda l, c, e: {"label": l, "children": c, "expanded": e}, label, kids, st.sampled_from([True, True, True, False]))


def node(depth, mode, max_depth=4, allow_pbar=False, allow_cast=True, extra=None):
    """allow_pbar: ProgressBar does not end its line (it is meant for table cells), so it is generated only directly inside containers that
    render their child line by line (table, panel, padding, columns, tree) - see known finding F3. allow_cast: __rich__ is resolved one level only."""
    leaf = st.one_of(
        text_node(mode), text_node(mode),
        st.builds(lambda t, ch, al, to: dict({"k": "rule", "title": t, "characters": ch, "align": al}, **({"title_opts": to} if to else {})), st.one_of(st.just(""), text_content(True), title_content()), st.sampled_from(["─", "-", "=-", GC.WIDE[0], "━"]), st.sampled_from(["left", "center", "right"]),
                  title_opts() if mode == "any" else st.none()),
        st.builds(lambda size, b, e, w: {"k": "bar", "size": size, "begin": min(b, e), "end": max(b, e), "width": w}, st.integers(1, 100), st.one_of(st.integers(0, 100), st.floats(0, 100, allow_nan=False)), st.one_of(st.integers(0, 100), st.floats(0, 100, allow_nan=False)), st.one_of(st.none(), st.integers(1, 60)) if mode == "any" else st.none()),
        # a bar whose two ends fall close together (inside one terminal cell at most widths)
        st.builds(lambda b, d: {"k": "bar", "size": 100, "begin": b, "end": min(100.0, b + d), "width": None}, st.floats(0, 99.5, allow_nan=False), st.floats(0, 0.5, allow_nan=False)),
    )
    if extra is not None:
        leaf = st.one_of(leaf, extra)
    if allow_pbar:
        pstyle = st.sampled_from(["bar.back", "bar.complete", "on grey15", "dim", "bold", "red", "#00ff00 on blue", "none"])
        pstyles = st.fixed_dictionaries({}, optional={"style": pstyle, "complete_style": pstyle, "finished_style": pstyle, "pulse_style": pstyle}) if mode == "any" else st.just({})
        leaf = st.one_of(leaf, st.builds(lambda total, c, w, p, ps: dict({"k": "pbar", "total": total, "completed": c, "width": w, "pulse": p}, **({"styles": ps} if ps else {})), st.integers(0, 100), st.integers(0, 120),
                                         st.one_of(st.none(), st.integers(1, 60)) if mode == "any" else st.none(), st.booleans(), pstyles))
    if depth >= max_depth:
        return leaf
    child = st.deferred(lambda: node(depth + 1, mode, max_depth, False, True, extra))       # under align/constrain/styled/group/bare
    line_child = st.deferred(lambda: node(depth + 1, mode, max_depth, True, True, extra))   # under table/panel/padding/columns/tree
    nocast_child = st.deferred(lambda: node(depth + 1, mode, max_depth, False, False, extra))
    small_child = st.one_of(text_node(mode, True), text_node(mode, True), line_child)
    containers = st.one_of(
        table_node(small_child, mode),
        st.builds(lambda c, b, t, ta, ex, p, w, tj, to: dict({"k": "panel", "child": c, "box": b, "title": t, "title_align": ta, "expand": ex, "padding": p, "width": w, "title_justify": tj}, **({"title_opts": to} if to else {})),
                  line_child, st.sampled_from(BOXES), st.one_of(st.none(), title_content()), st.sampled_from(["left", "center", "right"]), st.booleans(), pad_strategy(),
                  st.one_of(st.none(), st.none(), st.integers(1, 60)) if mode == "any" else st.none(), st.sampled_from([None, None, "left", "center", "right", "full"]),
                  title_opts() if mode == "any" else st.none()),
        st.builds(lambda c, p, ex: {"k": "padding", "child": c, "pad": p, "expand": ex}, line_child, pad_strategy(), st.booleans()),
        st.builds(lambda c, a, p, w: {"k": "align", "child": c, "align": a, "pad": p, "width": w}, child, st.sampled_from(["left", "center", "right"]), st.booleans(),
                  st.one_of(st.none(), st.integers(1, 60)) if mode == "any" else st.one_of(st.none(), st.none(), st.integers(20, 90))),  # Align(width=) restricts its child and never exceeds what is available
        st.builds(lambda c, w: {"k": "constrain", "child": c, "width": w}, child, st.one_of(st.none(), st.integers(1, 80)) if mode == "any" else st.none()),
        st.builds(lambda c: {"k": "styled", "child": c, "style": "bold on blue"}, child),
        st.builds(lambda items, eq, ex, cf, rtl, al, p, t, w: {"k": "columns", "items": items, "equal": eq, "expand": ex, "column_first": cf, "right_to_left": rtl, "align": al, "padding": p, "title": t, "width": w},
                  st.lists(small_child, min_size=0, max_size=6), st.booleans(), st.booleans(), st.booleans(), st.booleans(), st.sampled_from([None, "left", "center", "right"]), pad_strategy(),
                  st.one_of(st.none(), st.none(), text_content(True)), st.one_of(st.none(), st.none(), st.integers(1, 40)) if mode == "any" else st.none()),
        tree_node(small_child).map(lambda t: dict(t, k="tree")),
        st.builds(lambda cs, fit: {"k": "group", "children": cs, "fit": fit}, st.lists(child, min_size=0, max_size=3), st.booleans()),
        st.builds(lambda c: {"k": "bare", "child": c}, child),
    )
    if allow_cast:
        containers = st.one_of(containers, st.builds(lambda c: {"k": "cast", "child": c}, nocast_child))
    return st.one_of(leaf, containers, containers) if depth > 0 else st.one_of(containers, containers, containers, leaf)


# ------------------------------------------------------------------------------------------------ construction
EXTRA_BUILDERS = {}   # kind -> builder, for leaves a property module adds through node(extra=...)
EXTRA_MIN = {}        # kind -> structural minimum of such a leaf (default 1)

class Cast:
    def __init__(self, child):
        self.child = child

    def __rich__(self):
        return self.child


class Bare:
    """A renderable with no __rich_measure__."""

    def __init__(self, child):
        self.child = child

    def __rich_console__(self, console, options):
        yield self.child


def build(n):
    from rich import box as rbox
    from rich.text import Text
    from rich.table import Table
    from rich.panel import Panel
    from rich.padding import Padding
    from rich.align import Align
    from rich.constrain import Constrain
    from rich.styled import Styled
    from rich.columns import Columns
    from rich.tree import Tree
    from rich.rule import Rule
    from rich.bar import Bar
    from rich.progress_bar import ProgressBar
    from rich.console import RenderGroup

    k = n["k"]
    if k == "text":
        if "tab_size" in n:
            return Text(n["s"], justify=n["justify"], overflow=n["overflow"], no_wrap=n["no_wrap"], tab_size=n["tab_size"])
        return Text(n["s"], justify=n["justify"], overflow=n["overflow"], no_wrap=n["no_wrap"])
    if k == "table":
        t = Table(
            box=getattr(rbox, n["box"]) if n["box"] else None, show_header=n["show_header"], show_footer=n["show_footer"], show_edge=n["show_edge"],
            show_lines=n["show_lines"], leading=n["leading"], padding=tuple(n["padding"]), pad_edge=n["pad_edge"], collapse_padding=n["collapse_padding"],
            expand=n["expand"], title=title_text(n["title"], n.get("title_text_justify"), n.get("title_opts")) if n["title"] is not None else None, caption=Text(n["caption"]) if n["caption"] is not None else None,
            width=n.get("width"), min_width=n.get("min_width"),
        )
        for c in n["cols"]:
            t.add_column(Text(c["header"]), Text(c["footer"]), justify=c["justify"], overflow=c["overflow"], ratio=c["ratio"], max_width=c["max_width"],
                         width=c.get("width"), min_width=c.get("min_width"), no_wrap=c.get("no_wrap", False))
        for r in n["rows"]:
            t.add_row(*[build(c) for c in r["cells"]], end_section=r["end_section"])
        return t
    if k == "panel":
        return Panel(build(n["child"]), getattr(rbox, n["box"]), title=title_text(n["title"], n.get("title_justify"), n.get("title_opts")) if n["title"] is not None else None, title_align=n["title_align"], expand=n["expand"],
                     padding=tuple(n["padding"]), width=n["width"])
    if k == "padding":
        return Padding(build(n["child"]), tuple(n["pad"]), expand=n["expand"])
    if k == "align":
        return Align(build(n["child"]), n["align"], pad=n["pad"], width=n["width"])
    if k == "constrain":
        return Constrain(build(n["child"]), n["width"])
    if k == "styled":
        return Styled(build(n["child"]), n["style"])
    if k == "columns":
        return Columns([build(c) for c in n["items"]], padding=tuple(n["padding"]), width=n["width"], expand=n["expand"], equal=n["equal"], column_first=n["column_first"],
                       right_to_left=n["right_to_left"], align=n["align"], title=Text(n["title"]) if n["title"] is not None else None)
    if k == "tree":
        def mk(tn, parent=None):
            t = Tree(build(tn["label"]), expanded=tn["expanded"]) if parent is None else parent.add(build(tn["label"]), expanded=tn["expanded"])
            for c in tn["children"]:
                mk(c, t)
            return t
        return mk(n)
    if k == "rule":
        return Rule(title_text(n["title"], None, n.get("title_opts")) if n["title"] else "", characters=n["characters"], align=n["align"])
    if k == "bar":
        return Bar(n["size"], n["begin"], n["end"], width=n["width"])
    if k == "pbar":
        return ProgressBar(total=n["total"], completed=n["completed"], width=n["width"], pulse=n["pulse"], animation_time=n.get("atime", 1.5), **n.get("styles", {}))
    if k == "group":
        return RenderGroup(*[build(c) for c in n["children"]], fit=n["fit"])
    if k in EXTRA_BUILDERS:
        return EXTRA_BUILDERS[k](n)
    if k == "cast":
        return Cast(build(n["child"]))
    if k == "bare":
        return Bare(build(n["child"]))
    raise ValueError(k)


# ------------------------------------------------------------------------------------------------ structural minimum
def text_min(s):
    if any(OC.cw(c) == 2 for c in s):
        return 2
    return 1 if any(not c.isspace() for c in s) or s else 0


def struct_min(n):
    k = n["k"]
    if k == "text":
        return text_min(n["s"])
    if k == "table":
        box = n["box"]
        ncols = len(n["cols"])
        extra = (2 if (box and n["show_edge"]) else 0) + ((ncols - 1) if box else 0)
        _, pr, _, pl = unpack_pad(n["padding"])
        total = extra
        for i, c in enumerate(n["cols"]):
            left = pl
            if n["collapse_padding"] and i > 0:
                left = max(0, pl - pr)
            need = 1
            if n["show_header"]:
                need = max(need, text_min(c["header"]))
            if n["show_footer"]:
                need = max(need, text_min(c["footer"]))
            for r in n["rows"]:
                need = max(need, struct_min(r["cells"][i]))
            total += left + pr + need
        for t in (n["title"], n["caption"]):
            if t:
                total = max(total, text_min(t))
        return total
    if k == "panel":
        _, pr, _, pl = unpack_pad(n["padding"])
        m = struct_min(n["child"]) + pl + pr + 2
        if n["title"] is not None:
            m = max(m, 4 + 0)
        return max(m, 3)
    if k == "padding":
        _, pr, _, pl = unpack_pad(n["pad"])
        return struct_min(n["child"]) + pl + pr
    if k in ("align", "constrain", "styled", "cast", "bare"):
        return struct_min(n["child"])
    if k == "group":
        return max([struct_min(c) for c in n["children"]] + [0])
    if k == "columns":
        m = max([struct_min(c) for c in n["items"]] + [0])
        if n["title"]:
            m = max(m, text_min(n["title"]))
        return m
    if k == "tree":
        def walk(tn, d):
            m = 4 * d + struct_min(tn["label"])
            if tn["expanded"]:
                for c in tn["children"]:
                    m = max(m, walk(c, d + 1))
            return m
        return walk(n, 0)
    if k in EXTRA_MIN:
        return EXTRA_MIN[k](n)
    if k in ("rule", "bar", "pbar") or k in EXTRA_BUILDERS:
        return 1
    raise ValueError(k)


def depth_of(n):
    k = n["k"]
    if k == "table":
        return 1 + max([depth_of(c) for r in n["rows"] for c in r["cells"]] + [0])
    if k in ("panel", "padding", "align", "constrain", "styled", "cast", "bare"):
        return 1 + depth_of(n["child"])
    if k == "group":
        return 1 + max([depth_of(c) for c in n["children"]] + [0])
    if k == "columns":
        return 1 + max([depth_of(c) for c in n["items"]] + [0])
    if k == "tree":
        def walk(tn):
            return max([depth_of(tn["label"])] + [walk(c) for c in tn["children"]])
        return 1 + walk(n)
    return 0


def has_wide(n):
    import json

    return any(OC.cw(c) != 1 for c in json.dumps(n, ensure_ascii=False) if ord(c) > 127)


def kinds_of(n, acc=None):
    acc = acc if acc is not None else set()
    acc.add(n["k"])
    k = n["k"]
    if k == "table":
        for r in n["rows"]:
            for c in r["cells"]:
                kinds_of(c, acc)
    elif k in ("panel", "padding", "align", "constrain", "styled", "cast", "bare"):
        kinds_of(n["child"], acc)
    elif k == "group":
        for c in n["children"]:
            kinds_of(c, acc)
    elif k == "columns":
        for c in n["items"]:
            kinds_of(c, acc)
    elif k == "tree":
        def walk(tn):
            kinds_of(tn["label"], acc)
            for c in tn["children"]:
                walk(c)
        walk(n)
    return acc


def ends_unterminated(n):
    """True if rendering the node can end without a new line (ProgressBar yields none)."""
    k = n["k"]
    if k == "pbar":
        return True
    if k in ("cast", "bare", "styled", "constrain"):
        return ends_unterminated(n["child"])
    if k == "group":
        return bool(n["children"]) and ends_unterminated(n["children"][-1])
    return False


def has_unterminated_sequence(n):
    """A group in which a child other than the last ends without a new line: the next child continues that line (known finding F3)."""
    k = n["k"]
    if k == "group":
        if any(ends_unterminated(c) for c in n["children"][:-1]):
            return True
        return any(has_unterminated_sequence(c) for c in n["children"])
    if k == "table":
        return any(has_unterminated_sequence(c) for r in n["rows"] for c in r["cells"])
    if k in ("panel", "padding", "align", "constrain", "styled", "cast", "bare"):
        return has_unterminated_sequence(n["child"])
    if k == "columns":
        return any(has_unterminated_sequence(c) for c in n["items"])
    if k == "tree":
        def walk(tn):
            return has_unterminated_sequence(tn["label"]) or any(walk(c) for c in tn["children"])
        return walk(n)
    return False
