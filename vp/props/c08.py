"""C08 - framing renderables draw exact rectangles around intact content."""
import io
from hypothesis import strategies as st

from ..core import Part, sut
from ..gen import trees as GT, chars as GC
from ..oracles import cells as OC

PROP_ID = "C08"
LEVEL = "exploration"
RULE = "Hypothesis: frames x children x widths x {utf-8, ascii-only, legacy-windows}: the child rendered alone at the inner width must appear verbatim inside an exact rectangle; rules/bars/columns/trees by position predicates"
ASSUMPTIONS = [
    "only the outermost frame of a case is judged; its child (possibly itself a frame) is rendered alone by rich at the inner width and must re-appear unchanged",
    "frame style is 'none' so that styles do not enter the comparison; characters and cell positions are compared",
    "Align: the child is laid out at min(its measured maximum, Align.width, W) as documented; the measurement itself is C09's subject",
    "Columns items are short unique tokens that fit the width unwrapped (some cases render, add items, and render again); Tree labels are unique tokens (possibly multi-line)",
    "ProgressBar fills its width exactly only when colour is available (colour system set and no NO_COLOR), as the statement says",
    "widths are at or above the structural minimum of the frame (DESIGN 3)",
]


class AsciiFile(io.StringIO):
    encoding = "ascii"


def make_console(W, env="utf8", color_system="truecolor", no_color=False):
    from rich.console import Console

    f = AsciiFile() if env == "ascii" else io.StringIO()
    return sut(Console, file=f, width=W, height=25, color_system=color_system, force_terminal=True, legacy_windows=(env == "legacy"), no_color=no_color, _environ={})


def render_text_lines(con, renderable, options=None):
    segs = sut(lambda: list(con.render(renderable, options or con.options)))
    text = "".join(s.text for s in segs if not s.is_control)
    lines = text.split("\n")
    if lines and lines[-1] == "":
        lines.pop()
    return lines


def pad_to(line, width):
    return line + " " * max(0, width - OC.width(line))


def child_strategy(depth=0):
    txt = GT.text_node("free")
    small_table = GT.table_node(GT.text_node("free", True), "free", max_cols=3, max_rows=2)
    if depth >= 1:
        return st.one_of(txt, txt, small_table)
    inner = st.deferred(lambda: frame_strategy(depth + 1))
    return st.one_of(txt, txt, small_table, inner)


def balanced_title():
    """Titles with as many zero-width as double-width characters (the cell length equals the character count although no cut position is safe),
    usually longer than the panel has room for: decomposed accents / variation selectors next to CJK / emoji."""
    unit = st.one_of(st.sampled_from(GC.NARROW_ASCII), st.sampled_from(GC.NARROW_ASCII), st.just(" "))
    def build(chars, wides, zeros, order):
        out = list(chars)
        # wide characters towards the front, zero-width ones towards the back (or the other way round): a cut in between unbalances the kept part
        k = min(len(wides), len(zeros))
        front, back = (wides[:k], zeros[:k]) if order else (zeros[:k], wides[:k])
        half = max(1, len(out) // 2)
        for i, c in enumerate(front):
            out.insert(min(len(out), (i * 2) % half), c)
        for i, c in enumerate(back):
            out.insert(max(1, len(out) - (i * 2) % half), c)
        t = "".join(out).strip()
        return t if t else "T"
    return st.builds(build, st.lists(unit, min_size=3, max_size=24), st.lists(st.sampled_from(GC.WIDE), min_size=1, max_size=3), st.lists(st.sampled_from(GC.ZERO), min_size=1, max_size=3), st.booleans())


def frame_strategy(depth=0):
    child = child_strategy(depth)
    return st.one_of(
        st.builds(lambda c, b, t, ta, ex, p, w, tj: {"k": "panel", "child": c, "box": b, "title": t, "title_align": ta, "expand": ex, "padding": p, "width": w, "title_justify": tj},
                  child, st.sampled_from(GT.BOXES), st.one_of(st.none(), st.none(), st.sampled_from(["T", "title", "a longer title here", GC.WIDE[0] * 3, "a\tb"]), balanced_title()), st.sampled_from(["left", "center", "right"]),
                  st.booleans(), GT.pad_strategy(), st.one_of(st.none(), st.none(), st.integers(8, 60)), st.sampled_from([None, None, "left", "center", "right", "full"])),
        st.builds(lambda c, p, ex: {"k": "padding", "child": c, "pad": p, "expand": ex}, child, GT.pad_strategy(), st.booleans()),
        st.builds(lambda c, a, p, w: {"k": "align", "child": c, "align": a, "pad": p, "width": w}, child, st.sampled_from(["left", "center", "right"]), st.booleans(), st.one_of(st.none(), st.none(), st.integers(2, 40))),
        st.builds(lambda c, w: {"k": "constrain", "child": c, "width": w}, child, st.one_of(st.none(), st.integers(2, 60))),
        st.builds(lambda c: {"k": "styled", "child": c, "style": "bold on blue"}, child),
    )


class Frames(Part):
    name = "frames"
    rule = ("Panel(box, title, title_align, expand, width, padding) | Padding(1/2/4-tuple, expand) | Align(left/center/right, pad, width) | Constrain | Styled around "
            "text | small table | nested frame, W = structural minimum + {0,1,2,3,5,8,13} or 1..120, under utf-8 / ascii-only / legacy-windows consoles; "
            "non-trivial = nested frames, or a child wider than the inner width (it had to wrap)")
    budget = {"quick": (16, 300), "thorough": (16, 6000)}
    chunk = 150

    def strategy(self, tier):
        # a few very wide consoles too (a log file opened with width=2000): padding of more than 1024 / 2048 cells
        w = st.one_of(st.sampled_from([0, 0, 1, 2, 3, 5, 8, 13]).map(lambda d: ["delta", d]), st.integers(1, 120).map(lambda v: ["abs", v]), st.integers(1, 120).map(lambda v: ["abs", v]),
                      st.sampled_from([1023, 1024, 1030, 1500, 2047, 2054, 2500, 5000]).map(lambda v: ["abs", v]))
        return st.builds(lambda f, w, env: {"frame": f, "w": w, "env": env}, frame_strategy(), w, st.sampled_from(["utf8", "utf8", "ascii", "legacy"]))

    def check(self, spec, ctx):
        from rich.measure import Measurement
        from rich import box as rbox

        fr = spec["frame"]
        smin = max(1, GT.struct_min(fr))
        kind, v = spec["w"]
        W = smin + v if kind == "delta" else max(smin, v)
        if fr["k"] == "panel" and fr["width"] is not None:
            fr = dict(fr, width=max(fr["width"], smin))
        con = make_console(W, spec["env"])
        frame = sut(GT.build, fr)
        lines = render_text_lines(con, frame)
        child_r = sut(GT.build, fr["child"])
        k = fr["k"]
        desc = "%s at W=%d (%s): %r" % (k, W, spec["env"], fr)
        widths = sorted({OC.width(l) for l in lines})

        def child_lines(inner):
            c2 = make_console(max(inner, 1), spec["env"])
            opts = con.options.update(width=inner)
            return render_text_lines(con, sut(GT.build, fr["child"]), opts)

        if k in ("panel", "padding"):
            if not lines:
                return  # nothing to frame (the child has no lines at this width)
            if len(widths) > 1:
                ctx.violation("rectangle", "C08/rectangle/" + k, "lines have widths %r\n%s\n%s" % (widths, "\n".join(lines), desc))
                return
            pw = widths[0] if widths else 0
            pt, pr, pb, pl = GT.unpack_pad(fr["padding"] if k == "panel" else fr["pad"])
            border = 1 if k == "panel" else 0
            target = W if (k == "padding" or fr["width"] is None) else min(W, fr["width"])
            if fr["expand"] and pw != target:
                ctx.violation("expand", "C08/expand/" + k, "expanding %s is %d cells wide, %d available\n%s\n%s" % (k, pw, target, "\n".join(lines), desc))
                return
            if pw > target:
                ctx.violation("rectangle", "C08/too-wide/" + k, "%s is %d cells wide, %d available\n%s\n%s" % (k, pw, target, "\n".join(lines), desc))
                return
            inner = pw - 2 * border - pl - pr
            if inner < max(1, GT.struct_min(fr["child"])):
                ctx.cls("inner-below-child-minimum")
                return  # a non-expanding frame sized itself below its child's structural minimum: the child cannot appear intact (measurement is C09's subject)
            cl = child_lines(inner)
            if any(OC.width(c) > inner for c in cl):
                return
            want_h = 2 * border + pt + pb + len(cl)
            if len(lines) != want_h:
                ctx.violation("frame", "C08/height/" + k, "%d lines, expected %d (child has %d lines at inner width %d)\n%s\n%s" % (len(lines), want_h, len(cl), inner, "\n".join(lines), desc))
                return
            if k == "panel":
                bx = getattr(rbox, fr["box"]).substitute(con.options, safe=True)
                left, right = bx.mid_left, bx.mid_right
            else:
                left = right = ""
            blank = left + " " * (pw - 2 * border) + right
            body = lines[border:len(lines) - border]
            for i, l in enumerate(body):
                if i < pt or i >= pt + len(cl):
                    want = blank
                    what = "padding-line"
                else:
                    want = left + " " * pl + pad_to(cl[i - pt], inner) + " " * pr + right
                    what = "child-line"
                if l != want:
                    ctx.violation("frame", "C08/%s/%s" % (what, k), "line %d is %r, expected %r (child rendered alone at inner width %d)\n%s\n%s" % (i + border, l, want, inner, "\n".join(lines), desc))
                    return
            if k == "panel":
                top, bottom = lines[0], lines[-1]
                if top[0] != bx.top_left or top[-1] != bx.top_right or bottom[0] != bx.bottom_left or bottom[-1] != bx.bottom_right:
                    ctx.violation("frame", "C08/corners/panel", "corners wrong: %r / %r\n%s" % (top, bottom, desc))
                    return
                if fr["title"] is None and set(top[1:-1]) - {bx.top}:
                    ctx.violation("frame", "C08/border/panel", "top border %r\n%s" % (top, desc))
                    return
                if set(bottom[1:-1]) - {bx.bottom}:
                    ctx.violation("frame", "C08/border/panel", "bottom border %r\n%s" % (bottom, desc))
                    return
                if fr["title"] is not None and "\t" not in fr["title"] and pw >= OC.width(fr["title"]) + 6:  # " title " between corner+1 border cells on each side
                    if fr["title"] not in top:
                        ctx.violation("frame", "C08/title/panel", "title %r missing from %r\n%s" % (fr["title"], top, desc))
                        return
            wrapped = len(cl) > 1 and fr["child"]["k"] == "text" and "\n" not in fr["child"]["s"]
        elif k == "align":
            nat = sut(Measurement.get, con, child_r).maximum
            cw = min(nat, W) if fr["width"] is None else min(nat, fr["width"], W)
            cl = child_lines(max(cw, 1)) if cw >= 1 else []
            mw = max([OC.width(l) for l in cl] + [0])
            excess = W - mw
            if len(lines) != len(cl):
                ctx.violation("frame", "C08/height/align", "%d lines, child has %d\n%s\n%s" % (len(lines), len(cl), "\n".join(lines), desc))
                return
            for i, (l, c) in enumerate(zip(lines, cl)):
                c = pad_to(c, mw)
                if excess <= 0:
                    want = c
                elif fr["align"] == "left":
                    want = c + (" " * excess if fr["pad"] else "")
                elif fr["align"] == "center":
                    want = " " * (excess // 2) + c + (" " * (excess - excess // 2) if fr["pad"] else "")
                else:
                    want = " " * excess + c
                if l != want:
                    ctx.violation("frame", "C08/child-line/align", "line %d is %r, expected %r\n%s\n%s" % (i, l, want, "\n".join(lines), desc))
                    return
            wrapped = False
        elif k == "constrain":
            inner = W if fr["width"] is None else min(W, fr["width"])
            cl = child_lines(inner)
            if lines != cl:
                ctx.violation("frame", "C08/child-line/constrain", "Constrain output differs from the child rendered at width %d\n%r\nvs\n%r\n%s" % (inner, lines, cl, desc))
                return
            wrapped = False
        else:
            cl = child_lines(W)
            if lines != cl:
                ctx.violation("frame", "C08/child-line/styled", "Styled output differs from the child's\n%r\nvs\n%r\n%s" % (lines, cl, desc))
                return
            wrapped = False
        if fr["child"]["k"] in ("panel", "padding", "align", "constrain", "styled") or wrapped:
            ctx.nontrivial = True
        ctx.cls(k, "env-" + spec["env"])


class Lines(Part):
    name = "rule-bar"
    rule = ("Rule(title incl. wide, characters incl. wide and multi-character, align) -> one line of exactly W cells; Bar(size, begin, end, width) -> exactly "
            "min(width or W, W); ProgressBar(total incl. 0 and fractional, completed below / at / beyond total, negative or fractional, width, pulse) -> <= that, == when "
            "colour is available; a ProgressBar is followed by a history of 0-5 edits - update(completed), update(completed, total) with totals going up and down, "
            "or the public attributes width / pulse re-assigned - and is rendered and judged (against the width it has at that moment) after construction and "
            "after every edit; W 1..200 x colour system x no_color x env; non-trivial = wide rule characters, a title longer than W, a bar narrower than W, "
            "or a history in which update() changed the total")
    budget = {"quick": (8, 1000), "thorough": (16, 8000)}

    def strategy(self, tier):
        rule = st.builds(lambda t, ch, al: {"k": "rule", "title": t, "characters": ch, "align": al}, st.one_of(st.just(""), GT.text_content(True), GT.title_content()),
                         st.sampled_from(["─", "-", "=-", GC.WIDE[0], "━", "ab" + GC.WIDE[1], "*", "━━", "═─", "＝", "─" * 3]), st.sampled_from(["left", "center", "right"]))
        bar = st.builds(lambda size, b, e, w: {"k": "bar", "size": size, "begin": min(b, e), "end": max(b, e), "width": w}, st.integers(1, 100), st.integers(0, 100), st.integers(0, 100), st.one_of(st.none(), st.integers(1, 80)))
        # totals: 0 (documented: a full bar) or >= 0.5; completed: below / at / beyond the total, negative, fractional
        total = st.one_of(st.integers(0, 100), st.just(0), st.integers(1, 300), st.floats(0.5, 300, allow_nan=False))
        completed = st.one_of(st.integers(0, 120), st.integers(-5, 400), st.floats(-5, 400, allow_nan=False))
        bwidth = st.one_of(st.none(), st.integers(1, 80))
        # what a program does with a bar it keeps: progress is reported, the size estimate is revised (up or down), the bar is resized or switched to / from pulsing
        step = st.one_of(
            completed.map(lambda c: ["update", c, None]),
            st.builds(lambda c, t: ["update", c, t], completed, total),
            st.builds(lambda c, t: ["update", c, t], completed, total),
            bwidth.map(lambda w: ["width", w]),
            st.booleans().map(lambda p: ["pulse", p]),
        )
        history = st.one_of(st.just([]), st.lists(step, min_size=1, max_size=5))
        pbar = st.builds(lambda total, c, w, p, at, h: {"k": "pbar", "total": total, "completed": c, "width": w, "pulse": p, "atime": at, "history": h}, total, completed, bwidth, st.booleans(),
                         st.one_of(st.just(1.5), st.integers(0, 200).map(lambda k: k / 16), st.floats(0, 1000, allow_nan=False)), history)
        w = st.one_of(st.integers(1, 12), st.integers(1, 200))
        return st.builds(lambda n, w, cs, nc, env: {"node": n, "W": w, "color_system": cs, "no_color": nc, "env": env}, st.one_of(rule, rule, bar, pbar), w,
                         st.sampled_from([None, "standard", "256", "truecolor"]), st.sampled_from([False, False, True]), st.sampled_from(["utf8", "utf8", "ascii", "legacy"]))

    def check(self, spec, ctx):
        n = spec["node"]
        W = spec["W"]
        con = make_console(W, spec["env"], spec["color_system"], spec["no_color"])
        obj = sut(GT.build, n)
        lines = render_text_lines(con, obj)
        desc = "%r at W=%d colour=%r no_color=%r env=%s -> %r" % (n, W, spec["color_system"], spec["no_color"], spec["env"], lines)
        k = n["k"]
        if k == "pbar":
            # the bar as constructed, then after every edit of its history: each render is judged against the width the bar has at that moment
            colour = spec["color_system"] is not None and not spec["no_color"]
            bw = n["width"]
            total_changed = False
            for i, step in enumerate([None] + list(n.get("history") or [])):
                if step is not None:
                    if step[0] == "update":
                        if step[2] is None:
                            sut(obj.update, step[1])
                        else:
                            sut(obj.update, step[1], step[2])
                            total_changed = True
                    elif step[0] == "width":
                        bw = step[1]
                        sut(setattr, obj, "width", bw)
                    else:
                        sut(setattr, obj, "pulse", step[1])
                    lines = render_text_lines(con, obj)
                    desc = "%r at W=%d colour=%r no_color=%r env=%s, after edit %d %r -> %r" % (n, W, spec["color_system"], spec["no_color"], spec["env"], i, step, lines)
                when = "" if step is None else "/after-edits"
                if not lines:
                    lines = [""]
                if len(lines) != 1:
                    ctx.violation("one-line", "C08/lines/pbar" + when, "expected one line; " + desc)
                    return
                w = OC.width(lines[0])
                target = min(bw or W, W)
                if w > target:
                    ctx.violation("bar", "C08/bar/too-wide" + when, "pbar is %d cells wide, at most %d allowed; %s" % (w, target, desc))
                    return
                if colour and w != target:
                    ctx.violation("bar", "C08/bar/not-filled" + when, "pbar is %d cells wide, should fill %d; %s" % (w, target, desc))
                    return
                if target < W:
                    ctx.nontrivial = True
            if total_changed:
                ctx.nontrivial = True
                ctx.cls("pbar-total-revised")
            if n.get("history"):
                ctx.cls("pbar-history")
            ctx.cls(k)
            return
        if len(lines) != 1:
            ctx.violation("one-line", "C08/lines/" + k, "expected one line; " + desc)
            return
        w = OC.width(lines[0])
        if k == "rule":
            if w != W:
                ctx.violation("rule", "C08/rule/width", "rule is %d cells wide; %s" % (w, desc))
                return
            # the rule characters fill the line: blanks only inside / around the title, plus at most one where a double-width character is cut at the edge
            chars = "-" if (spec["env"] == "ascii" and not n["characters"].isascii()) else n["characters"]
            slack = 1 if any(OC.cw(c) == 2 for c in chars) else 0
            line = lines[0]
            title = n["title"]
            if " " not in chars:
                if not title.strip():
                    if line.count(" ") > slack + (2 * slack if title else 0) and not title:
                        ctx.violation("rule", "C08/rule/not-filled", "an untitled rule contains %d blank cells; %s" % (line.count(" "), desc))
                        return
                elif title == title.strip() and "\n" not in title and "\t" not in title:
                    lead = len(line) - len(line.lstrip(" "))
                    trail = len(line) - len(line.rstrip(" "))
                    if OC.width(title) <= W - 4 and title not in line:
                        ctx.violation("rule", "C08/rule/title-missing", "the title fits but is not on the line; %s" % desc)
                        return
                    # a title that has to be shortened may itself be cut inside a double-width character (one more blank)
                    tcut = 1 if (any(OC.cw(c) == 2 for c in title) and OC.width(title) > W - 4) else 0
                    if lead > 1 + slack + tcut or trail > 1 + slack + tcut:
                        ctx.violation("rule", "C08/rule/not-filled", "a titled rule starts with %d and ends with %d blank cells; %s" % (lead, trail, desc))
                        return
            if any(OC.cw(c) == 2 for c in n["characters"]) or OC.width(n["title"]) > W:
                ctx.nontrivial = True
        else:
            target = min(n["width"] or W, W)
            colour = spec["color_system"] is not None and not spec["no_color"]
            if w > target:
                ctx.violation("bar", "C08/bar/too-wide", "%s is %d cells wide, at most %d allowed; %s" % (k, w, target, desc))
                return
            if (k == "bar" or colour) and w != target:
                ctx.violation("bar", "C08/bar/not-filled", "%s is %d cells wide, should fill %d; %s" % (k, w, target, desc))
                return
            if target < W:
                ctx.nontrivial = True
        ctx.cls(k)


TOKENS = ["a1", "b22", "c", "dd4", "e5555", "f", "gg7", "h8", "ii", "j0", "kk1", "l", "m3m", "nn", "o15", "p", "qq7", "r8r", "s", "tt0"]


class ColumnsTrees(Part):
    name = "columns-trees"
    rule = ("Columns(1-14 unique tokens, equal, expand, column_first, right_to_left, align, padding, title) at W >= widest token: every token exactly once, read in "
            "the documented order; Tree(<= 15 nodes, depth <= 4, expanded flags, multi-line labels): visible labels once, in depth-first order, each line "
            "prefixed by exactly 4 cells per level; non-trivial = columns with a partial last row, or a tree with a collapsed subtree and a multi-line label")
    budget = {"quick": (8, 800), "thorough": (16, 8000)}

    def strategy(self, tier):
        cols = st.builds(lambda n, eq, ex, cf, rtl, al, p, t, w, first: {"k": "columns", "n": n, "equal": eq, "expand": ex, "column_first": cf, "right_to_left": rtl, "align": al, "padding": p, "title": t, "W": w, "first": first},
                         st.integers(1, 14), st.booleans(), st.booleans(), st.booleans(), st.booleans(), st.sampled_from([None, "left", "center", "right"]), GT.pad_strategy(),
                         st.one_of(st.none(), st.just("TITLE")), st.one_of(st.integers(6, 30), st.integers(6, 120)), st.one_of(st.none(), st.none(), st.integers(0, 13)))

        def tnode(depth=0):
            kids = st.lists(st.deferred(lambda: tnode(depth + 1)), max_size=3) if depth < 3 else st.just([])
            return st.builds(lambda multi, c, e: {"multi": multi, "children": c, "expanded": e}, st.sampled_from([False, False, True]), kids, st.sampled_from([True, True, False]))

        tree = st.builds(lambda t, w, env: {"k": "tree", "root": t, "W": w, "env": env}, tnode(), st.integers(30, 120), st.sampled_from(["utf8", "ascii", "legacy"]))
        return st.one_of(cols, tree)

    def check(self, spec, ctx):
        from rich.columns import Columns
        from rich.tree import Tree

        if spec["k"] == "columns":
            items = TOKENS[:spec["n"]]
            W = spec["W"]
            con = make_console(W)
            source = list(items)
            c = sut(Columns, source, padding=tuple(spec["padding"]), expand=spec["expand"], equal=spec["equal"], column_first=spec["column_first"],
                    right_to_left=spec["right_to_left"], align=spec["align"], title=spec["title"])
            # what the caller does afterwards with the list it passed in does not change what the Columns shows; a second Columns made from it is on its own
            other = sut(Columns, source)
            sut(other.add_renderable, "zzother")
            source.append("zzlater")
            source.reverse()
            if spec.get("first") is not None and spec["first"] < len(items):
                # history: render with the first items only, add the rest with add_renderable(), render again - the second render is judged
                c = sut(Columns, list(items[:spec["first"]]), padding=tuple(spec["padding"]), expand=spec["expand"], equal=spec["equal"], column_first=spec["column_first"],
                        right_to_left=spec["right_to_left"], align=spec["align"], title=spec["title"])
                render_text_lines(con, c)
                for it in items[spec["first"]:]:
                    sut(c.add_renderable, it)
                ctx.cls("render-add-render")
            lines = render_text_lines(con, c)
            desc = "%r -> \n%s" % (spec, "\n".join(lines))
            rows = []
            seen = {}
            for li, l in enumerate(lines):
                if spec["title"] and l.strip() and set(l.strip()) <= set(spec["title"] + " "):
                    continue  # (possibly wrapped) title line: upper-case letters only, items are lower-case
                found = []
                rest = l
                for t in TOKENS:
                    start = 0
                    while True:
                        i = l.find(t, start)
                        if i < 0:
                            break
                        # a token is delimited by a non-alphanumeric neighbour or another token's first letter
                        found.append((i, t))
                        start = i + len(t)
                found.sort()
                covered = "".join(t for _, t in found)
                if covered != "".join(l.split()):
                    ctx.violation("columns", "C08/columns/foreign", "line %r is not made of the items; %s" % (l, desc))
                    return
                row = []
                for _, t in found:
                    if t not in items:
                        ctx.violation("columns", "C08/columns/foreign", "unexpected item %r; %s" % (t, desc))
                        return
                    seen[t] = seen.get(t, 0) + 1
                    row.append(t)
                if row:
                    rows.append(row)
            for t in items:
                if seen.get(t, 0) != 1:
                    ctx.violation("columns", "C08/columns/%s" % ("missing" if t not in seen else "duplicated"), "token %r appears %d times; %s" % (t, seen.get(t, 0), desc))
                    return
            ncols = max(len(r) for r in rows)
            if spec["right_to_left"]:
                rows = [r[::-1] for r in rows]
            if not spec["column_first"]:
                order = [t for r in rows for t in r]
            else:
                order = [r[cix] for cix in range(ncols) for r in rows if cix < len(r)]
            if order != items:
                ctx.violation("columns", "C08/columns/order-%s%s" % ("column-first" if spec["column_first"] else "row-first", "-rtl" if spec["right_to_left"] else ""), "read order %r, expected %r; %s" % (order, items, desc))
                return
            if len(rows) > 1 and len(rows[-1]) < ncols:
                ctx.nontrivial = True
                ctx.cls("partial-last-row")
            ctx.cls("columns")
            return
        # tree
        counter = [0]

        def label(n):
            counter[0] += 1
            base = "N%d" % counter[0]
            return base + ("\n" + base + "x" if n["multi"] else "")

        W = spec["W"]
        con = make_console(W, spec["env"])
        expect = []  # (label line text, depth) in DFS order over visible nodes

        def mk(n, parent, depth, visible):
            lab = label(n)
            t = Tree(lab, expanded=n["expanded"]) if parent is None else parent.add(lab, expanded=n["expanded"])
            if visible:
                for part in lab.split("\n"):
                    expect.append((part, depth))
            for ch in n["children"]:
                mk(ch, t, depth + 1, visible and n["expanded"])
            return t, lab

        tree, _ = mk(spec["root"], None, 0, True)
        hidden = counter[0] * 1
        lines = render_text_lines(con, tree)
        desc = "%r ->\n%s" % (spec, "\n".join(lines))
        if len(lines) != len(expect):
            ctx.violation("tree", "C08/tree/line-count", "%d lines, expected %d visible label lines; %s" % (len(lines), len(expect), desc))
            return
        for l, (text, depth) in zip(lines, expect):
            idx = l.find(text)
            if idx < 0 or l[idx:].rstrip() != text:
                ctx.violation("tree", "C08/tree/order", "line %r should end with label %r (depth-first order); %s" % (l, text, desc))
                return
            prefix = l[:idx]
            if OC.width(prefix) != 4 * depth:
                ctx.violation("tree", "C08/tree/prefix", "label %r at depth %d has a %d-cell prefix %r; %s" % (text, depth, OC.width(prefix), prefix, desc))
                return
        collapsed = "False" in repr(spec["root"]) and len(expect) < counter[0]
        if collapsed and any("x" in t for t, _ in expect):
            ctx.nontrivial = True
        ctx.cls("tree", "env-" + spec["env"])



class BarGrid(Part):
    name = "bar-grid"
    custom = True
    exhaustive = True
    rule = ("Bar(size, begin, end) with fractional begin / end on a grid of sixteenths of a terminal cell: W 1..32 x every cell x every pair of sub-cell positions (both ends inside one "
            "cell, or the end in the next cell) x size {1.0, 100, 7}: the bar is exactly W cells wide; non-trivial = both ends inside one cell")
    budget = {"quick": (16, 1), "thorough": (16, 1)}

    def run_shard(self, tier, shard, nshards, seed, stats, deadline, known):
        from rich.bar import Bar
        from ..core import Ctx

        ctx = Ctx()
        n = nt = 0
        bad = None
        for W in range(1, 33):
            if (W - 1) % nshards != shard:
                continue
            con = make_console(W, "utf8", "truecolor", False)
            for cell in range(W):
                for f1 in range(0, 17):
                    for f2 in range(f1, 33):
                        for size in (1.0, 100, 7):
                            begin = size * (cell + f1 / 16.0) / W
                            end = size * (cell + f2 / 16.0) / W
                            if end > size:
                                continue
                            lines = render_text_lines(con, sut(Bar, size, begin, end))
                            n += 1
                            if f2 <= 16:
                                nt += 1
                            if len(lines) != 1 or OC.width(lines[0]) != W:
                                bad = {"W": W, "size": size, "begin": begin, "end": end}
                                ctx.violation("bar", "C08/bar/grid", "Bar(%r, %r, %r) at W=%d rendered %r (%s cells)" % (size, begin, end, W, lines, [OC.width(l) for l in lines]))
                                break
                        if bad:
                            break
                    if bad:
                        break
                if bad:
                    break
            if bad:
                break
        stats.evaluations += n
        stats.nontrivial_count_distinct += nt
        stats.done += 1
        stats.samples.append((1, {"shard": shard, "bars": n, "example": {"W": 40, "size": 100, "begin": 12.7, "end": 12.8}}, "range"))
        for v in ctx.violations:
            stats.found.setdefault(v.sig, {"spec": bad, "clause": v.clause, "detail": v.detail, "size": 1, "part": self.name})

    def replay(self, spec, ctx):
        from rich.bar import Bar

        con = make_console(spec["W"], "utf8", "truecolor", False)
        lines = render_text_lines(con, sut(Bar, spec["size"], spec["begin"], spec["end"]))
        if len(lines) != 1 or OC.width(lines[0]) != spec["W"]:
            ctx.violation("bar", "C08/bar/grid", "Bar(%r, %r, %r) at W=%d rendered %r" % (spec["size"], spec["begin"], spec["end"], spec["W"], lines))


PARTS = [Frames(), Lines(), ColumnsTrees(), BarGrid()]
