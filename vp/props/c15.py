"""C15 - recording, capture and export agree with what was written."""
import io
import re
import html
import datetime
from hypothesis import strategies as st

from ..core import Part, sut, SutError
from ..gen import styles as GS, chars as GC
from ..oracles import sgr as SGR
from . import c04 as C04

PROP_ID = "C15"
LEVEL = "exploration"
RULE = "Hypothesis: histories of print/log/rule/line/control/capture/export on a recording console and a twin console; exports compared with the escape-stripped file stream"
ASSUMPTIONS = [
    "visible text of a stream = what an independent SGR/OSC-8 interpreter reports as characters (escape sequences and C0 control codes removed)",
    "captured output on a recording console is also appended to the record in this version; the record-vs-file comparison is suspended from a capture block "
    "until the next clearing export (the statement's first sentence does not list capture) - DESIGN 7.10; capture clauses themselves are always checked",
    "log() is used with log_path=False and a generated clock, so the main and the twin console render identical log lines",
    "link URLs contain no quote or angle-bracket characters; printed text contains no tab or carriage return",
    "colours of the styled export are compared with the file only when the console itself writes truecolor (otherwise the file is down-converted or stripped)",
]


def seg_text():
    alpha = st.one_of(st.sampled_from(GC.NARROW_ASCII), st.sampled_from(GC.NARROW_ASCII + " "), st.sampled_from(["<", ">", "&", '"', "'", "&amp;", "<b>", "1", "2.5", " "]),
                     st.sampled_from(["{stylesheet}", "{foreground}", "{background}", "{code}", "{", "}", "{{", "}}", "{0}", "%s", "%(code)s", "$code"]), st.sampled_from(GC.WIDE[:6]), st.just("\n"))
    return st.lists(alpha, min_size=0, max_size=10).map("".join)


def printable():
    seg = st.tuples(seg_text(), st.one_of(st.none(), st.sampled_from(GS.PALETTE), GS.style_spec(max_attrs=3))).map(list)
    return st.one_of(
        st.lists(seg, min_size=1, max_size=4).map(lambda s: ["text", s]),
        st.lists(seg, min_size=1, max_size=4).map(lambda s: ["text", s]),
        C04.well_nested().map(lambda evs: ["markup", evs]),
        seg_text().map(lambda s: ["plain", s]),
        st.lists(st.lists(seg_text(), min_size=2, max_size=2), min_size=1, max_size=3).map(lambda rows: ["table", rows]),
        st.tuples(seg_text(), st.one_of(st.none(), st.sampled_from(["title", "<t>"]))).map(lambda t: ["panel", t[0], t[1]]),
    )


def print_opts():
    """Keyword arguments of print() / out(): end, sep, style, soft_wrap, crop, justify."""
    return st.one_of(st.just({}), st.just({}), st.fixed_dictionaries({}, optional={
        "end": st.sampled_from(["", "\n\n", " ", "\n", "x\n\ny\n"]), "style": st.sampled_from(GS.PALETTE), "soft_wrap": st.booleans(), "crop": st.booleans(),
        "justify": st.sampled_from(["left", "center", "right"]), "no_wrap": st.booleans()}))


def op_strategy():
    p = printable()
    out_ops = st.one_of(
        p.map(lambda x: ["print", x]), p.map(lambda x: ["print", x]), st.tuples(p, print_opts()).map(lambda t: ["print", t[0], t[1]]),
        st.tuples(st.lists(seg_text(), min_size=1, max_size=3), st.fixed_dictionaries({}, optional={"end": st.sampled_from(["", "\n\n", "\n", "a\nb\n\n"]), "sep": st.sampled_from([" ", "\n", ""]),
                                                                                             "style": st.sampled_from(GS.PALETTE), "highlight": st.booleans()})).map(lambda t: ["out", t[0], t[1]]),
        st.tuples(p, st.integers(0, 3)).map(lambda t: ["log", t[0], t[1]]),
        st.one_of(st.just(""), st.sampled_from(["rule title", "a<b", "漢字"])).map(lambda t: ["rule", t]),
        st.integers(0, 3).map(lambda n: ["line", n]),
        st.sampled_from(["bell", "clear", "hide_cursor", "show_cursor"]).map(lambda k: ["ctl", k]),
        # a renderable that, while it is being rendered (after its first line), prints a child on the same console - inside a capture block of its own
        # (to get the child as a string) or plainly
        st.tuples(seg_text(), seg_text(), seg_text(), st.sampled_from(["capture", "capture", "print"])).map(lambda t: ["print", ["nested", t[0] or "first", t[1], t[2], t[3]]]),
    )
    # ["raise"] inside a capture block: a print whose renderable raises; the program handles the exception and goes on
    cap = st.lists(st.one_of(p, p, p, st.just(["raise"])), min_size=0, max_size=4).map(lambda ps: ["capture", ps])
    exp = st.one_of(
        st.tuples(st.booleans(), st.booleans()).map(lambda t: ["export_text", t[0], t[1]]),
        st.tuples(st.booleans(), st.booleans()).map(lambda t: ["export_html", t[0], t[1]]),
    )
    return st.one_of(out_ops, out_ops, out_ops, cap, exp, exp)


class UserError(Exception):
    pass


class Raises:
    """A renderable that produces one line and then fails."""

    def __rich_console__(self, console, options):
        yield "before the failure"
        raise UserError("renderable failed")


class Nested:
    """Yields a line, prints a child on the same console (captured or not), yields another line."""

    def __init__(self, first, child, last, mode):
        self.first, self.child, self.last, self.mode = first, child, last, mode
        self.captured = []

    def __rich_console__(self, console, options):
        from rich.text import Text

        yield Text(self.first)
        if self.mode == "capture":
            with console.capture() as cap:
                console.print(Text(self.child))
            self.captured.append(cap.get())
        else:
            console.print(Text(self.child))
        yield Text(self.last)


def make_printable(x):
    from rich.text import Text
    from rich.table import Table
    from rich.panel import Panel

    k = x[0]
    if k == "nested":
        return Nested(*x[1:5]), {}
    if k == "text":
        return Text.assemble(*[(t, GS.build_style(s)) if s else t for t, s in x[1]]), {}
    if k == "markup":
        evs = [e for e in x[1] if e[0] != "text" or C04.side_ok(e[1])]
        res = C04.interpret(evs)
        return res[1], {"emoji": False}
    if k == "plain":
        return x[1], {"markup": False}
    if k == "table":
        t = Table(show_header=False)
        for row in x[1]:
            t.add_row(*[Text(c) for c in row])
        return t, {}
    return Panel(Text(x[1]), title=Text(x[2]) if x[2] else None), {}


def pre_body(doc):
    m = re.search(r"<pre[^>]*>(.*)</pre>", doc, re.S)
    if not m:
        return None
    return html.unescape(re.sub(r"<[^>]*>", "", m.group(1)))


class Histories(Part):
    name = "histories"
    rule = ("console config (colour system None/standard/256/truecolor, force_terminal, width 20..120, no_color) x <= 25 ops over print(Text with styles and "
            "links | markup | plain text with < > & quotes and template-like tokens ({stylesheet}, {{, %s) | table | panel; optionally with end/style/soft_wrap/crop/justify/no_wrap), "
            "out(strings, sep, end, style), print of a renderable that prints a child on the same console while it is rendered (captured or not), log, rule, line(n), bell/clear/cursor, capture{1-3 prints}, export_text(clear, "
            "styles), export_html(clear, inline_styles); non-trivial = >= 2 prints with different adjacent styles, a control op followed by an unstyled "
            "line, and both a clearing and a non-clearing export")
    budget = {"quick": (16, 500), "thorough": (16, 6000)}
    chunk = 250

    def strategy(self, tier):
        cfg = st.builds(lambda cs, ft, w, nc, rl: {"color_system": cs, "terminal": ft, "width": w, "no_color": nc, "record_late": rl},
                        st.sampled_from([None, "standard", "256", "truecolor", "truecolor"]), st.sampled_from([True, True, False]), st.integers(20, 120), st.sampled_from([False, False, True]),
                        st.sampled_from([False, False, True]))
        free = st.lists(op_strategy(), min_size=1, max_size=25)
        seg = st.tuples(seg_text(), st.sampled_from(GS.PALETTE)).map(list)
        styled = st.lists(seg, min_size=2, max_size=4).map(lambda s_: ["print", ["text", s_]])
        ctl = st.sampled_from(["bell", "clear", "hide_cursor"]).map(lambda k: ["ctl", k])
        exp = st.sampled_from(["export_text", "export_html"])
        # shaped histories: styled prints, a control op followed by an unstyled line, a non-clearing and a clearing export, then free ops
        shaped = st.builds(lambda a, c, n, b, e1, f1, e2, f2, rest: [a, c, ["line", n], b, [e1, False, f1]] + rest[:6] + [[e2, True, f2]] + rest[6:],
                           styled, ctl, st.integers(1, 2), styled, exp, st.booleans(), exp, st.booleans(), st.lists(op_strategy(), max_size=14))
        return st.builds(lambda c, ops: {"config": c, "ops": ops}, cfg, st.one_of(free, shaped))

    def check(self, spec, ctx):
        from rich.console import Console

        cfg = spec["config"]
        clock = {"t": 0}

        def now():
            return datetime.datetime(2021, 1, 1, 12, 0, 0) + datetime.timedelta(seconds=clock["t"])

        def mk(record):
            f = io.StringIO()
            c = sut(Console, file=f, color_system=cfg["color_system"], force_terminal=cfg["terminal"], width=cfg["width"], no_color=cfg["no_color"],
                    record=record, legacy_windows=False, log_path=False, get_datetime=now, _environ={})
            return c, f

        if cfg.get("record_late"):
            # recording is switched on after the console was made (console.record = True)
            con, f = mk(False)
            con.record = True
            ctx.cls("record-switched-on-later")
        else:
            con, f = mk(True)
        twin, tf = mk(False)
        caps = []  # (Capture object, what it returned)
        mark = 0  # file offset of the last clearing export
        suspended = False
        full_color = cfg["color_system"] == "truecolor" and not cfg["no_color"]
        styled_prints = 0
        ctl_then_plain = False
        last_was_ctl = False
        exports = set()

        def emit(c, x, via="print", tick=0, opts=None):
            nonlocal suspended
            if x == ["raise"]:
                if c is con:
                    try:
                        c.print(Raises())
                    except UserError:
                        ctx.cls("failed-print-in-capture")
                    except Exception as e:  # noqa
                        raise SutError(e)
                    else:
                        ctx.violation("capture", "C15/capture/exception-swallowed", "the exception of a failing renderable did not propagate out of print()")
                return
            r, kw = make_printable(x)
            if via == "print":
                kw = dict(kw)
                for a, b in (opts or {}).items():
                    kw[a] = GS.build_style(b) if a == "style" else b
                sut(c.print, r, **kw)
                if isinstance(r, Nested):
                    ctx.cls("print-from-inside-a-render-" + r.mode)
                    if r.mode == "capture" and c is con:
                        from rich.text import Text

                        suspended = True   # the captured child is in the record but never reaches the file (assumption 10)

                        alone, af = mk(False)
                        sut(alone.print, Text(r.child))
                        if r.captured != [af.getvalue()]:
                            ctx.violation("capture", "C15/capture/nested", "a renderable captured its child %r while being rendered (after its first line %r): the capture returned %r, the child alone prints as %r" % (
                                r.child, r.first, r.captured, af.getvalue()))
            else:
                clock["t"] += 0
                sut(c.log, r, **kw)

        norm_id = lambda t: re.sub(r"id=[0-9.]+-[0-9]+", "id=X", t)  # noqa
        for op in spec["ops"]:
            k = op[0]
            fpos, tpos = len(f.getvalue()), len(tf.getvalue())
            if k in ("print", "log", "rule", "line", "ctl"):
                pass
            if k == "print":
                emit(con, op[1], opts=op[2] if len(op) > 2 else None)
                emit(twin, op[1], opts=op[2] if len(op) > 2 else None)
                if len(op) > 2 and op[2]:
                    ctx.cls("print-with-options")
                if op[1][0] == "text" and len({GS.spec_view(s) if s else None for _, s in op[1][1]}) >= 2:
                    styled_prints += 1
                if last_was_ctl and op[1][0] == "plain":
                    ctl_then_plain = True
                last_was_ctl = False
            elif k == "out":
                kw = dict(op[2])
                if "style" in kw:
                    kw["style"] = GS.build_style(kw["style"])
                for c in (con, twin):
                    sut(c.out, *op[1], **kw)
                last_was_ctl = False
                ctx.cls("out")
            elif k == "log":
                clock["t"] += op[2]
                emit(con, op[1], "log")
                emit(twin, op[1], "log")
                last_was_ctl = False
            elif k == "rule":
                sut(con.rule, op[1])
                sut(twin.rule, op[1])
                last_was_ctl = False
            elif k == "line":
                sut(con.line, op[1])
                sut(twin.line, op[1])
                if last_was_ctl and op[1]:
                    ctl_then_plain = True
                last_was_ctl = False
            elif k == "ctl":
                for c in (con, twin):
                    if op[1] == "bell":
                        sut(c.bell)
                    elif op[1] == "clear":
                        sut(c.clear)
                    else:
                        sut(c.show_cursor, op[1] == "show_cursor")
                last_was_ctl = True
            if k in ("print", "log", "rule", "line", "ctl", "out"):
                # everything written outside a capture block reaches the file at once, exactly as on the twin console
                a, b = norm_id(f.getvalue()[fpos:]), norm_id(tf.getvalue()[tpos:])
                if a != b:
                    ctx.violation("file", "C15/file/%s" % ("withheld" if not a else "differs-from-twin"), "after %r the file received %r, the twin console %r" % (op[:1], a[:200], b[:200]))
                    return
            if k == "capture":
                before = f.getvalue()
                tbefore = tf.getvalue()
                with con.capture() as cap:
                    for x in op[1]:
                        emit(con, x)
                    if f.getvalue() != before:
                        ctx.violation("capture", "C15/capture/leaked", "output reached the file inside a capture block: %r" % f.getvalue()[len(before):][:200])
                        return
                for x in op[1]:
                    emit(twin, x)
                got = sut(cap.get)
                want = tf.getvalue()[len(tbefore):]
                if f.getvalue() != before:
                    ctx.violation("capture", "C15/capture/leaked-after", "captured output reached the file when the block ended: %r" % f.getvalue()[len(before):][:200])
                    return
                # undo: the twin wrote what the main console captured, so the streams diverge from here; keep comparing by deltas only
                if re.sub(r"id=[0-9.]+-[0-9]+", "id=X", got) != re.sub(r"id=[0-9.]+-[0-9]+", "id=X", want):
                    ctx.violation("capture", "C15/capture/different", "capture.get() = %r, the same prints write %r" % (got[:300], want[:300]))
                    return
                suspended = True
                ctx.cls("capture")
                last_was_ctl = False
                # a capture object keeps its own result: read again later (after other capture blocks) it must say the same
                for old_cap, old_text in caps:
                    again = sut(old_cap.get)
                    if again != old_text:
                        ctx.violation("capture", "C15/capture/result-changed", "an earlier capture's get() returned %r at first and %r after a later capture block" % (old_text[:200], again[:200]))
                        return
                caps.append((cap, got))
            elif k in ("export_text", "export_html"):
                clear = op[1]
                flag = op[2]
                written = f.getvalue()[mark:]
                try:
                    events, _ = SGR.interpret(written)
                except SGR.BadStream as e:
                    ctx.violation("file", "C15/file/malformed", "file stream malformed: %s %r" % (e, written[:200]))
                    return
                vis = "".join(e[1] for e in events if e[0] == "ch")
                if k == "export_text":
                    e1 = sut(con.export_text, clear=False, styles=flag)
                    e2 = sut(con.export_text, clear=False, styles=flag)
                    if e1 != e2:
                        ctx.violation("clear", "C15/clear/changed-without-clear", "two exports without clear differ")
                        return
                    if not flag:
                        got_vis = e1
                    else:
                        try:
                            ev2, final = SGR.interpret(e1)
                        except SGR.BadStream as e:
                            ctx.violation("styled-export", "C15/styled/malformed", "styled export malformed: %s %r" % (e, e1[:200]))
                            return
                        got_vis = "".join(e[1] for e in ev2 if e[0] == "ch")
                    if not suspended and got_vis != vis:
                        ctx.violation("export-text", "C15/text/%s" % ("styled" if flag else "plain"), "export_text(styles=%r) visible text %r, file shows %r" % (flag, got_vis[:300], vis[:300]))
                        return
                    if flag and not suspended and cfg["color_system"] is not None:
                        a = [e for e in ev2 if e[0] == "ch"]
                        b = [e for e in events if e[0] == "ch"]
                        for x, y in zip(a, b):
                            if x[1] == "\n":
                                continue
                            xs = (x[2], x[5]) if not full_color else tuple(x[2:])
                            ys = (y[2], y[5]) if not full_color else tuple(y[2:])
                            if xs != ys:
                                ctx.violation("styled-export", "C15/styled/style", "styled export shows %r with %r, the file with %r" % (x[1], xs, ys))
                                return
                    if clear:
                        e3 = sut(con.export_text, clear=True, styles=flag)
                        e4 = sut(con.export_text, clear=False, styles=flag)
                        if e3 != e1:
                            ctx.violation("clear", "C15/clear/differs", "export with clear differs from the one before it")
                            return
                        if e4 != "":
                            ctx.violation("clear", "C15/clear/not-emptied", "export after a clearing export is %r" % e4[:200])
                            return
                else:
                    h1 = sut(con.export_html, clear=False, inline_styles=flag)
                    h2 = sut(con.export_html, clear=False, inline_styles=flag)
                    if h1 != h2:
                        ctx.violation("clear", "C15/clear/changed-without-clear", "two HTML exports without clear differ")
                        return
                    body = pre_body(h1)
                    if body is None:
                        ctx.violation("export-html", "C15/html/no-pre", "no <pre> body in the HTML export")
                        return
                    if not suspended and body != vis:
                        bad = "control" if any(ord(c) < 32 and c != "\n" for c in body) else "text"
                        ctx.violation("export-html", "C15/html/%s" % bad, "HTML text %r, file shows %r" % (body[:300], vis[:300]))
                        return
                    if clear:
                        h3 = sut(con.export_html, clear=True, inline_styles=flag)
                        h4 = pre_body(sut(con.export_html, clear=False, inline_styles=flag))
                        if h3 != h1:
                            ctx.violation("clear", "C15/clear/differs", "HTML export with clear differs from the one before it")
                            return
                        if h4 != "":
                            ctx.violation("clear", "C15/clear/not-emptied", "HTML export after a clearing export has body %r" % (h4 or "")[:200])
                            return
                exports.add(clear)
                if clear:
                    mark = len(f.getvalue())
                    suspended = False
                ctx.cls(k)
        if styled_prints >= 2 and ctl_then_plain and exports == {True, False}:
            ctx.nontrivial = True
        if len(exports) == 2:
            ctx.cls("both-export-kinds")


PARTS = [Histories()]
