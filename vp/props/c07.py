"""C07 - tables are rectangles that show every cell in its own column."""
import io
from hypothesis import strategies as st

from ..core import Part, sut
from ..gen import trees as GT
from ..oracles import cells as OC

PROP_ID = "C07"
LEVEL = "exploration"
RULE = "Hypothesis: tables whose cells are unique-character texts (an output character identifies its cell) x all listed table/column options x widths from the structural minimum"
ASSUMPTIONS = [
    "every letter of every cell/header/footer/title of a case is distinct and is not a box-drawing or ASCII border character, so an output character identifies its cell, row and column",
    "ratio >= 1 (DESIGN 7.6); column width/min_width/no_wrap are not in this property's option list and are not generated",
    "the body of the table is what the same table renders without title and caption; title/caption lines may only surround it",
    "character containment for 'fold' columns is claimed for columns that the width solver allots at least their structural need; when it allots fewer content cells than a "
    "column needs although the table as a whole has its structural minimum (padding-unaware collapse: F1; ratio shares with a 1-cell floor: F4) the loss is a known finding",
    "a column max_width is >= 2 (a cap below one double-width character could not show it)",
    "expand-exact is checked when no column has max_width and the table has no min_width larger than the width",
]

_POOLS = None


def pools():
    global _POOLS
    if _POOLS is None:
        narrow = []
        for a, b in ((0x41, 0x5B), (0x61, 0x7B), (0x30, 0x3A), (0xC0, 0x250), (0x391, 0x3CA), (0x400, 0x500), (0x531, 0x557), (0x561, 0x587), (0x10D0, 0x10FB)):
            for cp in range(a, b):
                c = chr(cp)
                if OC.cw(c) == 1 and c.isalnum() and not c.isspace() and c.lower() not in ("x",):
                    narrow.append(c)
        wide = [chr(c) for c in range(0x4E00, 0x4E00 + 400)]
        _POOLS = (narrow, wide)
    return _POOLS


@st.composite
def table_case(draw):
    narrow, wide = pools()
    ni = [0]
    wi = [0]

    def word():
        n = draw(st.integers(1, 6))
        out = []
        for _ in range(n):
            if draw(st.integers(0, 5)) == 0 and wi[0] < len(wide):
                out.append(wide[wi[0]])
                wi[0] += 1
            elif ni[0] < len(narrow):
                out.append(narrow[ni[0]])
                ni[0] += 1
        return "".join(out)

    def text(maxwords=4, allow_empty=True):
        k = draw(st.integers(0 if allow_empty else 1, maxwords))
        parts = []
        for i in range(k):
            parts.append(word())
            if i < k - 1:
                parts.append(draw(st.sampled_from([" ", " ", " ", "  ", "\n", "\u3000"])))  # U+3000: white space that is two cells wide
        return "".join(parts)

    ncols = draw(st.integers(1, 6))
    nrows = draw(st.integers(0, 8))
    cols = []
    for _ in range(ncols):
        cols.append({
            "header": text(2), "footer": text(2), "justify": draw(st.sampled_from(GT.JUSTIFY)), "overflow": draw(st.sampled_from(["fold", "fold", "fold", "crop", "ellipsis"])),
            "ratio": draw(st.one_of(st.none(), st.none(), st.integers(1, 4))), "max_width": draw(st.one_of(st.none(), st.none(), st.none(), st.integers(2, 12))),  # a cap below one double-width character could not show it
        })
    # the last `implicit` columns are never declared: a row with more cells than there are columns creates them (earlier, shorter rows get blank cells)
    implicit = min(ncols, draw(st.sampled_from([0, 0, 0, 1, 2, 3]))) if nrows else 0
    for c in cols[ncols - implicit:] if implicit else []:
        c.update({"header": "", "footer": "", "justify": "left", "overflow": "ellipsis", "ratio": None, "max_width": None})
    full_row = draw(st.integers(0, nrows - 1)) if implicit else None   # this row certainly carries all its cells
    rows = []
    for ri in range(nrows):
        cells = []
        short = bool(implicit) and ri != full_row and draw(st.booleans())
        for ci in range(ncols):
            if short and ci >= ncols - implicit:
                cells.append({"k": "text", "s": "", "justify": None, "overflow": None, "no_wrap": None})
                continue
            t = {"k": "text", "s": text(4 if draw(st.integers(0, 4)) else 9), "justify": None, "overflow": None, "no_wrap": None}
            kind = draw(st.integers(0, 11))
            if kind == 0:
                t = {"k": "panel", "child": t, "box": "SQUARE", "title": None, "title_align": "center", "expand": draw(st.booleans()), "padding": [0, 0], "width": None}
            elif kind == 1:
                t = {"k": "padding", "child": t, "pad": [0, draw(st.integers(0, 2))], "expand": draw(st.booleans())}
            elif kind == 2:
                # a nested table (1-2 columns, 1-2 rows of unique-character texts)
                nc = draw(st.integers(1, 2))
                def tcell():
                    return {"k": "text", "s": text(2, allow_empty=False), "justify": None, "overflow": None, "no_wrap": None}
                t = {"k": "table", "cols": [{"header": "", "footer": "", "justify": "left", "overflow": "fold", "ratio": None, "max_width": None} for _ in range(nc)],
                     "rows": [{"cells": [tcell() for _ in range(nc)], "end_section": False} for _ in range(draw(st.integers(1, 2)))],
                     "box": draw(st.sampled_from([None, "SQUARE", "ASCII"])), "show_header": False, "show_footer": False, "show_edge": draw(st.booleans()), "show_lines": False, "leading": 0,
                     "padding": [0, draw(st.integers(0, 1))], "pad_edge": False, "collapse_padding": False, "expand": False, "title": None, "caption": None}
            cells.append(t)
        rows.append({"cells": cells, "end_section": draw(st.sampled_from([False, False, False, True])), "style": draw(st.sampled_from([None, None, "on blue"])), "short": short,
                     "rejected_before": draw(st.one_of(st.none(), st.none(), st.none(), st.integers(0, 5)))})
    node = {
        "k": "table", "cols": cols, "rows": rows, "implicit": implicit,
        "box": draw(st.one_of(st.none(), st.sampled_from(GT.BOXES), st.sampled_from(GT.BOXES))),
        "show_header": draw(st.booleans()), "show_footer": draw(st.booleans()), "show_edge": draw(st.booleans()), "show_lines": draw(st.booleans()),
        "leading": draw(st.sampled_from([0, 0, 0, 1, 2, 3])), "padding": draw(GT.pad_strategy()), "pad_edge": draw(st.booleans()),
        "collapse_padding": draw(st.booleans()), "expand": draw(st.booleans()),
        "title": draw(st.one_of(st.none(), st.none(), st.just("T"))), "caption": draw(st.one_of(st.none(), st.none(), st.just("C"))),
        "row_styles": draw(st.sampled_from([None, None, ["dim", ""]])),
        "width_delta": draw(st.one_of(st.none(), st.none(), st.none(), st.integers(0, 30))), "min_width_delta": draw(st.one_of(st.none(), st.none(), st.none(), st.integers(-5, 30))),
        "title_justify": draw(st.sampled_from(["left", "center", "right"])),
        "prelude": draw(st.sampled_from([0, 0, 1, 2])),
        "columns_as_objects": draw(st.sampled_from([False, False, True])),
    }
    if node["title"]:
        node["title"] = "".join(narrow[-1 - i] for i in range(draw(st.integers(1, 5))))
    if node["caption"]:
        node["caption"] = "".join(narrow[-10 - i] for i in range(draw(st.integers(1, 5))))
    w = draw(st.one_of(st.sampled_from([0, 0, 1, 1, 2, 3, 5, 8, 13]).map(lambda d: ["delta", d]), st.sampled_from([0, 1, 2, 3, 5, 8, 13]).map(lambda d: ["safe", d]), st.integers(1, 200).map(lambda v: ["abs", v])))
    return {"table": node, "w": w}


def build_table(n, W, smin, annotations=True):
    from rich import box as rbox
    from rich.text import Text
    from rich.table import Table

    width = None if n["width_delta"] is None else min(W, smin + n["width_delta"])  # a table width beyond the available width is an explicit request to exceed it
    min_width = None if n["min_width_delta"] is None else max(1, smin + n["min_width_delta"])
    implicit = n.get("implicit", 0)
    declared = len(n["cols"]) - implicit
    headers = []
    if n.get("columns_as_objects"):
        # the documented alternative: Column objects given positionally to the constructor
        from rich.table import Column

        headers = [Column(Text(c["header"]), Text(c["footer"]), justify=c["justify"], overflow=c["overflow"], ratio=c["ratio"], max_width=c["max_width"]) for c in n["cols"][:declared]]
    t = Table(
        *headers,
        box=getattr(rbox, n["box"]) if n["box"] else None, show_header=n["show_header"], show_footer=n["show_footer"], show_edge=n["show_edge"],
        show_lines=n["show_lines"], leading=n["leading"], padding=tuple(n["padding"]), pad_edge=n["pad_edge"], collapse_padding=n["collapse_padding"],
        expand=n["expand"], title=Text(n["title"]) if (n["title"] and annotations) else None, caption=Text(n["caption"]) if (n["caption"] and annotations) else None,
        width=width, min_width=min_width, row_styles=n["row_styles"], title_justify=n["title_justify"],
    )
    for c in ([] if headers else n["cols"][:declared]):
        t.add_column(Text(c["header"]), Text(c["footer"]), justify=c["justify"], overflow=c["overflow"], ratio=c["ratio"], max_width=c["max_width"])
    from rich.errors import NotRenderableError

    for r in n["rows"]:
        cells = r["cells"][:declared] if r.get("short") else r["cells"]
        if r.get("rejected_before") is not None and cells:
            # history: an add_row() with a value that cannot be rendered (an int) was rejected just before this row ("try raw values, fall back to str()"):
            # the rejected row leaves nothing behind
            bad = [GT.build(c) for c in cells]
            bad[r["rejected_before"] % len(bad)] = 12345
            try:
                t.add_row(*bad)
            except NotRenderableError:
                pass
        t.add_row(*[GT.build(c) for c in cells], end_section=r["end_section"], style=r["style"])
    return t, width, min_width


def cell_text(c):
    if c["k"] == "table":
        return " ".join(cell_text(x) for r in c["rows"] for x in r["cells"])
    while c["k"] != "text":
        c = c["child"]
    return c["s"]


def w_safe(n):
    box = n["box"]
    ncols = len(n["cols"])
    extra = (2 if (box and n["show_edge"]) else 0) + ((ncols - 1) if box else 0)
    _, pr, _, pl = GT.unpack_pad(n["padding"])
    maxpad = pl + pr
    need = 1
    for i, c in enumerate(n["cols"]):
        if n["show_header"]:
            need = max(need, GT.text_min(c["header"]))
        if n["show_footer"]:
            need = max(need, GT.text_min(c["footer"]))
        for r in n["rows"]:
            need = max(need, GT.struct_min(r["cells"][i]))
    return extra + ncols * (maxpad + need)


class Tables(Part):
    name = "tables"
    rule = ("1-6 columns x 0-8 rows x box (18 kinds or None), show_header/footer/edge/lines, leading 0-3, padding, pad_edge, collapse_padding, expand, width, "
            "min_width, title/caption, row_styles, end_section x column justify/overflow/ratio/max_width x cells = unique-character multi-line texts with "
            "wide characters, sometimes wrapped in a panel or padding x W = structural minimum + {0..13}, W_safe + {0..13}, or 1..200; "
            "non-trivial = >= 2 columns, >= 1 row, and (natural width > W, or expand with ratios)")
    budget = {"quick": (16, 400), "thorough": (16, 8000)}
    chunk = 200

    def strategy(self, tier):
        return table_case()

    def check(self, spec, ctx):
        from rich.console import Console

        n = spec["table"]
        smin = max(1, GT.struct_min(n))
        safe = w_safe(n)
        kind, v = spec["w"]
        W = smin + v if kind == "delta" else (safe + v if kind == "safe" else max(smin, v))
        ncols = len(n["cols"])
        # character -> (row, col); header row = -1, footer row = 10**6
        owner = {}
        for j, c in enumerate(n["cols"]):
            if n["show_header"]:
                for ch in c["header"]:
                    if not ch.isspace():
                        owner[ch] = (-1, j)
            if n["show_footer"]:
                for ch in c["footer"]:
                    if not ch.isspace():
                        owner[ch] = (10**6, j)
        for i, r in enumerate(n["rows"]):
            for j, c in enumerate(r["cells"]):
                for ch in cell_text(c):
                    if not ch.isspace():
                        owner[ch] = (i, j)
        con = sut(Console, file=io.StringIO(), width=W, height=25, color_system="truecolor", force_terminal=True, legacy_windows=False, _environ={})
        if n.get("prelude"):
            # history: the same cells were shown before in a table whose columns do not fold (same widths, other overflow methods)
            import copy as _copy

            n0 = _copy.deepcopy(n)
            for k, c in enumerate(n0["cols"]):
                c["overflow"] = ["ellipsis", "crop"][(k + n["prelude"]) % 2]
            t0, _, _ = build_table(n0, W, smin, annotations=False)
            sut(lambda: list(con.render(t0, con.options)))
            ctx.cls("shown-before-without-folding")
        t, twidth, tminw = build_table(n, W, smin, annotations=False)
        body = "".join(s.text for s in sut(lambda: list(con.render(t, con.options))) if not s.is_control).split("\n")
        if body and body[-1] == "":
            body.pop()
        desc = "W=%d (structural minimum %d, W_safe %d) table=%r" % (W, smin, safe, n)
        in_band = W < safe
        # the columns' own no_wrap setting decides; rendering the table inside something that asks for no_wrap must not change it
        t_nw, _, _ = build_table(n, W, smin, annotations=False)
        body_nw = "".join(s.text for s in sut(lambda: list(con.render(t_nw, con.options.update(no_wrap=True)))) if not s.is_control).split("\n")
        if body_nw and body_nw[-1] == "":
            body_nw.pop()
        if body_nw != body:
            ctx.violation("columns", "C07/columns/outer-no_wrap", "the table renders differently when the enclosing options carry no_wrap=True\n%s\nvs\n%s\n%s" % ("\n".join(body_nw), "\n".join(body), desc))
            return
        # (1) rectangle
        widths = sorted({OC.width(l) for l in body})
        if len(widths) > 1:
            ctx.violation("rectangle", "C07/rectangle/ragged", "body lines have widths %r\n%s\n%s" % (widths, "\n".join(body), desc))
            return
        bw = widths[0] if widths else 0
        limit = twidth if twidth is not None else W
        if body and bw > limit:
            ctx.violation("rectangle", "C07/rectangle/too-wide", "body is %d cells wide, %d available\n%s\n%s" % (bw, limit, "\n".join(body), desc))
            return
        no_cap = all(c["max_width"] is None for c in n["cols"])
        # a table given an explicit width= is asked to be that wide (documented: "the width in characters of the table"; Table.expand is true for it), whatever expand= / min_width= say
        if body and (n["expand"] or twidth is not None) and no_cap and bw != limit and limit >= smin:
            if not n["expand"]:
                ctx.cls("explicit-width-without-expand")
            ctx.violation("expand", "C07/expand/%s" % (("one-short" if bw == limit - 1 else "not-exact") if n["expand"] else "explicit-width"), "expanding table is %d cells wide with %d available\n%s\n%s" % (bw, limit, "\n".join(body), desc))
            return
        # annotations only surround the body
        if n["title"] or n["caption"]:
            t2, _, _ = build_table(n, W, smin, annotations=True)
            full = "".join(s.text for s in sut(lambda: list(con.render(t2, con.options))) if not s.is_control).split("\n")
            if full and full[-1] == "":
                full.pop()
            ann = set((n["title"] or "") + (n["caption"] or ""))
            start = None
            for k in range(len(full) - len(body) + 1):
                if full[k:k + len(body)] == body:
                    start = k
                    break
            if start is None:
                ctx.violation("annotations", "C07/annotations/body-changed", "title/caption changed the table body\n%s\nvs\n%s\n%s" % ("\n".join(full), "\n".join(body), desc))
                return
            for l in full[:start] + full[start + len(body):]:
                if any((not ch.isspace()) and ch not in ann and ch != "…" for ch in l):
                    ctx.violation("annotations", "C07/annotations/foreign", "annotation line %r contains table characters\n%s" % (l, desc))
                    return
        # (2) rows on lines of their own, in order
        first_line = {}
        col_x = {}
        seen_chars = {}
        for li, l in enumerate(body):
            rows_here = set()
            x = 0
            for ch in l:
                o = owner.get(ch)
                if o is not None:
                    rows_here.add(o[0])
                    first_line.setdefault(o[0], li)
                    col_x.setdefault(o[1], []).append((x, x + OC.cw(ch)))
                    seen_chars.setdefault(ch, []).append((li, x))
                x += OC.cw(ch)
            if len(rows_here) > 1:
                ctx.violation("rows", "C07/rows/mixed", "line %d %r holds characters of rows %r\n%s" % (li, l, sorted(rows_here), desc))
                return
        order = sorted(first_line, key=lambda r: first_line[r])
        if order != sorted(order):
            ctx.violation("rows", "C07/rows/order", "rows appear in order %r\n%s\n%s" % (order, "\n".join(body), desc))
            return
        # which columns did the width solver allot fewer content cells than their structural need? (classification of known findings F1/F4 only)
        squeezed = set()
        try:
            extra = (2 if (n["box"] and n["show_edge"]) else 0) + ((ncols - 1) if n["box"] else 0)
            alloc = t._calculate_column_widths(con, limit - extra)
            for j, c in enumerate(n["cols"]):
                need = 1
                if n["show_header"]:
                    need = max(need, GT.text_min(c["header"]))
                if n["show_footer"]:
                    need = max(need, GT.text_min(c["footer"]))
                for r in n["rows"]:
                    need = max(need, GT.struct_min(r["cells"][j]))
                if alloc[j] - t._get_padding_width(j) < need:
                    squeezed.add(j)
        except Exception:  # noqa
            pass
        # (3) columns: x-ranges disjoint and ordered; divider offsets constant; fold columns complete
        xs = {j: (min(a for a, _ in v), max(b for _, b in v)) for j, v in col_x.items()}
        js = sorted(xs)
        for a, b in zip(js, js[1:]):
            if xs[a][1] > xs[b][0]:
                sig = "C07/columns/overlap-squeezed" if (squeezed & {a, b}) else "C07/columns/overlap"
                ctx.violation("columns", sig, "characters of column %d reach x=%d, column %d starts at x=%d\n%s\n%s" % (a, xs[a][1], b, xs[b][0], "\n".join(body), desc))
                return
        for ch, places in seen_chars.items():
            if len(places) > 1:
                ctx.violation("columns", "C07/columns/duplicated", "character %r appears %d times\n%s\n%s" % (ch, len(places), "\n".join(body), desc))
                return
        for i, r in list(enumerate(n["rows"])) + [(-1, None), (10**6, None)]:
            for j, c in enumerate(n["cols"]):
                if i == -1:
                    if not n["show_header"]:
                        continue
                    src = c["header"]
                elif i == 10**6:
                    if not n["show_footer"]:
                        continue
                    src = c["footer"]
                else:
                    src = cell_text(r["cells"][j])
                want = [ch for ch in src if not ch.isspace()]
                got = sorted((p[0] for ch in want for p in seen_chars.get(ch, [])))
                shown = [ch for ch in want if ch in seen_chars]
                pos = [seen_chars[ch][0] for ch in shown]
                nested_table = i not in (-1, 10**6) and r["cells"][j]["k"] == "table"
                if pos != sorted(pos) and not nested_table:  # a nested table lays its own cells out side by side
                    ctx.violation("columns", "C07/columns/reordered", "cell (%r,%d) characters out of order\n%s\n%s" % (i, j, "\n".join(body), desc))
                    return
                plain_cell = i in (-1, 10**6) or r["cells"][j]["k"] == "text"
                if c["overflow"] == "fold" and plain_cell and len(shown) != len(want):
                    missing = [ch for ch in want if ch not in seen_chars]
                    by_ratio = n["expand"] and c["ratio"] is not None
                    sig = ("C07/columns/dropped-squeezed-ratio" if by_ratio else "C07/columns/dropped-squeezed") if j in squeezed else "C07/columns/dropped"
                    ctx.violation("columns", sig, "fold column %d row %r lost characters %r\n%s\n%s" % (j, i, "".join(missing), "\n".join(body), desc))
                    return
        natural = None
        if ncols >= 2 and n["rows"]:
            con_big = Console(file=io.StringIO(), width=1000, _environ={})
            from rich.measure import Measurement

            natural = sut(Measurement.get, con_big, build_table(n, 1000, smin, annotations=False)[0], 1000).maximum
            if natural > W or (n["expand"] and any(c["ratio"] for c in n["cols"])):
                ctx.nontrivial = True
        if in_band:
            ctx.cls("below-W_safe")
        if n["expand"]:
            ctx.cls("expand")
        if n["box"] is None:
            ctx.cls("no-box")


PARTS = [Tables()]
