"""C01 - rendered output never exceeds the available width."""
import io
from hypothesis import strategies as st

from ..core import Part, sut
from ..gen import trees as GT
from ..oracles import cells as OC

PROP_ID = "C01"
LEVEL = "exploration"
RULE = "Hypothesis: renderable trees (depth <= 4, free-to-wrap option space) x widths from the structural minimum up to 200; every rendered line measured with the table-scan width oracle"
ASSUMPTIONS = [
    "columns are free to wrap: no column width/min_width/no_wrap, no table width, no overflow='ignore', no Panel/Align/Constrain/Bar width (explicit requests to exceed are C14's domain)",
    "ratio >= 1 (a zero share yields a negative column width - outside the option domain, DESIGN 7.6)",
    "structural minimum: text 1 cell (2 with a double-width character, 0 if empty); padding/panel add their left+right (+2 border); a titled panel needs >= 4; "
    "table = borders + sum over columns of (padding + widest innermost need); tree = 4 per level + label; rule/bar 1",
    "render() is used rather than print(), whose final crop would mask a child that overflows",
    "exotic line separators and the characters Text strips are not in the content alphabet - DESIGN 7.1/7.2",
]

DELTAS = [0, 0, 1, 1, 2, 3, 5, 8, 13]


def width_choice():
    return st.one_of(st.sampled_from(DELTAS).map(lambda d: ["delta", d]), st.sampled_from(DELTAS).map(lambda d: ["delta", d]), st.sampled_from([10, 20, 40, 80, 100, 120, 200]).map(lambda w: ["abs", w]), st.integers(1, 200).map(lambda w: ["abs", w]))


def resolve_width(spec):
    m = max(1, GT.struct_min(spec["tree"]))
    kind, v = spec["w"]
    return (m + v) if kind == "delta" else max(m, v), m


class EncFile(io.StringIO):
    """A text stream that reports an encoding, as a real file or terminal does (the console derives ascii_only and safe boxes from it)."""

    def __init__(self, encoding):
        super().__init__()
        self._enc = encoding

    @property
    def encoding(self):
        return self._enc


ENCODINGS = [None, None, None, "utf-8", "ascii", "latin-1", "cp1252"]


def render_lines(renderable, W, measure=False, encoding=None, **console_kw):
    from rich.console import Console

    kw = dict(file=EncFile(encoding) if encoding else io.StringIO(), width=W, height=25, color_system="truecolor", force_terminal=True, legacy_windows=False, _environ={})
    kw.update(console_kw)
    con = sut(Console, **kw)
    segs = sut(lambda: list(con.render(renderable, con.options)))
    text = "".join(s.text for s in segs if not s.is_control)
    lines = text.split("\n")
    return con, lines


class Trees(Part):
    name = "trees"
    rule = ("trees of text|table|panel|padding|align|constrain|styled|columns|tree|rule|bar|progress_bar|group|cast|bare nodes, every listed layout option, "
            "contents over narrow/wide/zero-width characters with newlines; W = structural minimum + {0,1,2,3,5,8,13} (about half of the cases), round "
            "numbers, or uniform up to 200; x stream encoding (none / utf-8 / ascii / latin-1 / cp1252: ascii_only boxes and guides); checked on console.render() and on what print() "
            "writes; non-trivial = nesting depth >= 2 and (W - minimum <= 3, or a wide/zero-width character present)")
    budget = {"quick": (16, 400), "thorough": (16, 8000)}
    chunk = 200

    def strategy(self, tier):
        return st.builds(lambda t, w, e, via, failed: {"tree": t, "w": w, "enc": e, "via": via, "failed_before": failed}, GT.node(0, "free"), width_choice(), st.sampled_from(ENCODINGS),
                         st.sampled_from(["console", "console", "options", "print-width"]), st.sampled_from([False, False, True]))

    def check(self, spec, ctx):
        from ..oracles import sgr as SGR

        tree = spec["tree"]
        W, m = resolve_width(spec)
        r = sut(GT.build, tree)
        enc = spec.get("enc")
        via = spec.get("via", "console")
        if via == "console":
            con, lines = render_lines(r, W, encoding=enc)
        else:
            # the W cells are not the console's own width: they are given through the render options / print(width=W) on a wider console
            from rich.console import Console

            con = sut(Console, file=EncFile(enc) if enc else io.StringIO(), width=W + 37, height=25, color_system="truecolor", force_terminal=True, legacy_windows=False, _environ={})
            segs = sut(lambda: list(con.render(r, con.options.update(width=W))))
            lines = "".join(s.text for s in segs if not s.is_control).split("\n")
            ctx.cls("width-via-" + via)
        if enc:
            ctx.cls("encoding-" + enc)
        depth = GT.depth_of(tree)
        kinds = GT.kinds_of(tree)
        for k in kinds:
            ctx.cls("has-" + k)
        if W - m <= 3:
            ctx.cls("near-minimum")
        for i, ln in enumerate(lines):
            w = OC.width(ln)
            if w > W:
                root = tree["k"]
                culprit = "pbar-unterminated" if GT.has_unterminated_sequence(tree) else ("leading" if any(_has_leading(tree)) else root)
                ctx.violation("width", "C01/width/%s" % culprit, "line %d is %d cells wide with %d available (structural minimum %d, encoding %r): %r\ntree=%r" % (i, w, W, m, enc, ln, tree))
                return
        # what print() writes (after the console's own post-processing of the rendered text) obeys the same bound
        r2 = sut(GT.build, tree)
        if spec.get("failed_before"):
            # history: an earlier print on this console failed half-way (its renderable raised after producing the start of a line) and the program went on
            from rich.console import RenderGroup
            from rich.text import Text

            class _Fails:
                def __rich_console__(self, console, options):
                    yield Text("Loading report: ", end="")
                    raise RuntimeError("renderable failed")

            try:
                con.print(_Fails(), crop=False)
            except RuntimeError:
                pass
            except Exception as e:  # noqa
                from ..core import SutError

                raise SutError(e)
            ctx.cls("after-a-failed-print")
        if via == "console":
            sut(con.print, r2)
        else:
            sut(con.print, r2, width=W)
        written = SGR.visible(con.file.getvalue())
        for i, ln in enumerate(written.split("\n")):
            w = OC.width(ln)
            if w > W:
                ctx.violation("width", "C01/width/written-%s" % tree["k"], "print() wrote line %d with %d cells on a console %d wide (encoding %r): %r\ntree=%r" % (i, w, W, enc, ln, tree))
                return
        if depth >= 2 and (W - m <= 3 or GT.has_wide(tree)):
            ctx.nontrivial = True


def _has_leading(n):
    k = n["k"]
    if k == "table":
        yield n["leading"] >= 2 and n["box"] is not None and len(n["rows"]) >= 2
        for r in n["rows"]:
            for c in r["cells"]:
                yield from _has_leading(c)
    elif k in ("panel", "padding", "align", "constrain", "styled", "cast", "bare"):
        yield from _has_leading(n["child"])
    elif k == "group":
        for c in n["children"]:
            yield from _has_leading(c)
    elif k == "columns":
        for c in n["items"]:
            yield from _has_leading(c)
    elif k == "tree":
        def walk(tn):
            yield from _has_leading(tn["label"])
            for c in tn["children"]:
                yield from walk(c)
        yield from walk(n)



class TerminalSize(Part):
    name = "terminal-size"
    rule = ("a console that takes its size from the terminal (no width / height given) used for several prints while the terminal's answer changes in between (resized to "
            "other widths, reporting 0x0, not answering at all, or sys.stdin / sys.stdout missing): every print fits the width the terminal has at that moment "
            "(80 when it does not say); non-trivial = the width changed between two prints")
    budget = {"quick": (4, 150), "thorough": (16, 1500)}

    def strategy(self, tier):
        answer = st.one_of(st.integers(10, 120), st.integers(10, 120), st.sampled_from([0, "error", "no-stdin", "no-streams"]))
        return st.builds(lambda answers, text, tree: {"answers": answers, "text": text, "tree": tree}, st.lists(answer, min_size=2, max_size=4), GT.text_content(), GT.node(0, "free", max_depth=2))

    def check(self, spec, ctx):
        import os
        import sys
        from rich.console import Console
        from rich.text import Text
        from ..oracles import sgr as SGR

        con = sut(Console, file=io.StringIO(), force_terminal=True, color_system=None, legacy_windows=False, _environ={})
        saved = (os.get_terminal_size, sys.stdin, sys.stdout)
        widths = []
        try:
            for ans in spec["answers"]:
                sys.stdin, sys.stdout = saved[1], saved[2]
                if ans == "no-stdin":
                    sys.stdin = None
                elif ans == "no-streams":
                    sys.stdin = None
                    sys.stdout = None

                def fake(fd=None, _a=ans):
                    if isinstance(_a, int):
                        return os.terminal_size((_a, 25 if _a else 0))
                    raise OSError("not a terminal")

                os.get_terminal_size = fake
                W = ans if isinstance(ans, int) and ans > 0 else 80
                widths.append(W)
                con.file.seek(0)
                con.file.truncate(0)
                try:
                    con.print(Text(spec["text"]))
                    con.print(GT.build(spec["tree"]))
                except Exception as e:  # noqa
                    sys.stdin, sys.stdout = saved[1], saved[2]
                    from ..core import SutError

                    raise SutError(e)
                m = max(1, GT.struct_min(spec["tree"]))
                for ln in SGR.visible(con.file.getvalue()).split("\n"):
                    if OC.width(ln) > max(W, 0) and W >= m:
                        ctx.violation("width", "C01/width/terminal-size", "the terminal answered %r (after %r): a line of %d cells was written: %r" % (ans, spec["answers"], OC.width(ln), ln))
                        return
        finally:
            os.get_terminal_size, sys.stdin, sys.stdout = saved
        if len(set(widths)) > 1:
            ctx.nontrivial = True


class WideTables(Part):
    name = "wide-tables"
    rule = ("consoles 257..900 cells wide (a wide terminal, a log file): tables of 2-3 columns whose cells are long wrappable sentences (150..600 cells, lengths tied or "
            "nearly tied) beside 1-2 narrow columns, so that the columns have to be collapsed from widths above 256; optionally inside a Panel; every line of "
            "console.render() and of what print(crop=False) writes is at most W cells; non-trivial = two long cells within 40 cells of each other")
    budget = {"quick": (8, 300), "thorough": (16, 3000)}
    chunk = 150

    def strategy(self, tier):
        ln = st.one_of(st.integers(150, 600), st.sampled_from([257, 258, 280, 300, 320, 512]))
        return st.builds(lambda longs, tie, narrow, W, expand, panel, order: {"longs": [longs[0]] + ([longs[0] + tie] if tie is not None else [longs[1]]) + longs[2:], "narrow": narrow, "w": W, "expand": expand, "panel": panel, "order": order},
                         st.lists(ln, min_size=2, max_size=3), st.one_of(st.none(), st.integers(-40, 40)), st.lists(st.sampled_from(["id", "ok", "7", "n/a"]), min_size=1, max_size=2),
                         st.one_of(st.integers(257, 900), st.integers(257, 420)), st.booleans(), st.booleans(), st.booleans())

    def check(self, spec, ctx):
        from rich.table import Table
        from rich.panel import Panel
        from rich.console import Console
        from ..oracles import sgr as SGR

        W = spec["w"]
        words = ["alpha", "be", "gamma", "delta", "epsilon", "zeta", "eta", "theta", "iota", "kappa"]

        def sentence(n):
            out = []
            i = 0
            while len(" ".join(out)) < n:
                out.append(words[i % len(words)])
                i += 1
            return " ".join(out)[:n].rstrip() or "x"

        def make():
            t = Table(expand=spec["expand"])
            cells = [sentence(max(1, n)) for n in spec["longs"]] + list(spec["narrow"])
            if spec["order"]:
                cells = cells[::-1]
            for k in range(len(cells)):
                t.add_column("c%d" % k)
            t.add_row(*cells)
            return Panel(t) if spec["panel"] else t

        con = sut(Console, file=io.StringIO(), width=W, height=25, color_system=None, force_terminal=False, legacy_windows=False, _environ={})
        segs = sut(lambda: list(con.render(make(), con.options)))
        for i, ln in enumerate("".join(s.text for s in segs if not s.is_control).split("\n")):
            if OC.width(ln) > W:
                ctx.violation("width", "C01/width/wide-table", "line %d is %d cells wide with %d available: table cells of %r + %r cells%s" % (i, OC.width(ln), W, spec["longs"], spec["narrow"], " in a panel" if spec["panel"] else ""))
                return
        sut(con.print, make(), crop=False)
        for i, ln in enumerate(SGR.visible(con.file.getvalue()).split("\n")):
            if OC.width(ln) > W:
                ctx.violation("width", "C01/width/written-wide-table", "print(crop=False) wrote line %d with %d cells on a console %d wide: table cells of %r + %r cells" % (i, OC.width(ln), W, spec["longs"], spec["narrow"]))
                return
        ls = sorted(spec["longs"])
        if any(b - a <= 40 for a, b in zip(ls, ls[1:])):
            ctx.nontrivial = True
        ctx.cls("must-collapse" if sum(spec["longs"]) > W else "fits")


PARTS = [Trees(), TerminalSize(), WideTables()]
