"""C12 - progress accounting is exact for any history and any interleaving."""
import io
import math
from fractions import Fraction
from hypothesis import strategies as st

from ..core import Part, sut

PROP_ID = "C12"
LEVEL = "exploration"
RULE = "Hypothesis: task-op histories x generated monotone clocks against a sequential reference model; the same split over threads under a harness-owned scheduler; track() over sequences and generators"
ASSUMPTIONS = [
    "amounts are integers or multiples of 1/4, so sums are exact in any order; clocks are generated non-decreasing readings consumed one per get_time() call",
    "accounting runs use Progress(disable=True) so that they do not depend on rendering (the default columns cannot render totals >~ 1e14: a rendering limit outside this property)",
    "speed / time-remaining clauses are checked only for tasks that never received a negative advance",
    "track() is consumed to the end (an early break leaves the element in flight uncounted by design) - DESIGN 7.12",
    "concurrent runs: preemption at every traced line of rich/progress.py and at every operation of the progress lock; C-level calls are atomic under the GIL",
]


def amount():
    return st.one_of(st.integers(0, 20), st.integers(0, 3), st.integers(0, 40).map(lambda k: k / 4), st.sampled_from([-1, -2.5, 10**6]))


def total():
    return st.one_of(st.integers(1, 100), st.integers(1, 10), st.sampled_from([0, 0, -5, 10**18, 0.5, 3.25]))


def op_strategy():
    ti = st.integers(0, 5)
    opt = lambda s: st.one_of(st.none(), st.none(), s)  # noqa
    return st.one_of(
        st.tuples(st.just("add"), total(), st.one_of(st.just(0), amount()), st.booleans()),
        st.tuples(st.just("advance"), ti, amount()), st.tuples(st.just("advance"), ti, amount()), st.tuples(st.just("advance"), ti, amount()),
        st.tuples(st.just("update"), ti, opt(total()), opt(amount()), opt(amount()), opt(st.booleans())),
        st.tuples(st.just("update"), ti, st.none(), st.none(), amount(), st.none()),
        st.tuples(st.just("reset"), ti, opt(total()), st.one_of(st.just(0), amount()), st.booleans()),
        st.tuples(st.just("start_task"), ti), st.tuples(st.just("stop_task"), ti), st.tuples(st.just("remove"), ti), st.tuples(st.just("stop")),
    ).map(list)


class Clock:
    def __init__(self, steps):
        self.steps = steps or [1]
        self.i = 0
        self.now = 0.0

    def __call__(self):
        self.now += self.steps[self.i % len(self.steps)]
        self.i += 1
        return self.now


class TaskModel:
    def __init__(self, total, completed, started):
        self.total = total
        self.completed = Fraction(completed)
        self.started = started
        self.negative = completed < 0
        self.finished_since = None  # recorded finished_time while it must stay fixed


def expected_percentage(m):
    if not m.total:
        return 0.0
    return float(min(Fraction(100), max(Fraction(0), m.completed / Fraction(m.total) * 100)))


def check_task(ctx, task, m, desc, after_progress_op):
    if Fraction(task.completed) != m.completed:
        ctx.violation("completed", "C12/completed/" + desc.split(" ")[0], "%s: completed = %r, expected %s" % (desc, task.completed, m.completed))
        return False
    if task.total != m.total:
        ctx.violation("completed", "C12/total", "%s: total = %r, expected %r" % (desc, task.total, m.total))
        return False
    p = sut(lambda: task.percentage)
    e = expected_percentage(m)
    if not math.isclose(p, e, rel_tol=1e-12, abs_tol=1e-12):
        ctx.violation("percentage", "C12/percentage", "%s: percentage = %r, expected %r (completed %s total %r)" % (desc, p, e, m.completed, m.total))
        return False
    if after_progress_op and m.started and m.completed >= Fraction(m.total) and not task.finished:
        ctx.violation("finished", "C12/finished/not-reported", "%s: completed %s >= total %r on a started task but finished is False" % (desc, m.completed, m.total))
        return False
    if m.finished_since is not None and task.finished_time != m.finished_since:
        ctx.violation("finished", "C12/finished/time-moved", "%s: finished_time changed from %r to %r without a total change or reset" % (desc, m.finished_since, task.finished_time))
        return False
    if task.finished_time is not None:
        m.finished_since = task.finished_time
    if not m.negative:
        sp = sut(lambda: task.speed)
        if sp is not None and sp < 0:
            ctx.violation("speed", "C12/speed/negative", "%s: speed = %r with only non-negative advances" % (desc, sp))
            return False
        if after_progress_op and m.started and task.stop_time is None:
            tr = sut(lambda: task.time_remaining)
            if tr is not None and tr < 0:
                ctx.violation("speed", "C12/time-remaining/negative", "%s: time_remaining = %r" % (desc, tr))
                return False
    return True


def apply_op(progress, ids, models, op, ctx):
    """Apply op to the real Progress and to the model. Returns (task index, is_progress_op) or None if skipped."""
    name = op[0]
    if name == "add":
        _, tot, comp, start = op
        tid = sut(progress.add_task, "t", start=start, total=tot, completed=comp)
        ids.append(tid)
        models[tid] = TaskModel(tot, comp, start)
        return tid, False
    if name == "stop":
        sut(progress.stop)
        return None
    live = [t for t in ids if t in models]
    if not live:
        return None
    tid = live[op[1] % len(live)]
    m = models[tid]
    if name == "advance":
        sut(progress.advance, tid, op[2])
        m.completed += Fraction(op[2])
        m.negative = m.negative or op[2] < 0
        return tid, True
    if name == "update":
        _, _, tot, comp, adv, vis = op
        sut(progress.update, tid, total=tot, completed=comp, advance=adv, visible=vis)
        if tot is not None:
            m.total = tot
            m.finished_since = None
        if adv is not None:
            m.completed += Fraction(adv)
            m.negative = m.negative or adv < 0
        if comp is not None:
            m.completed = Fraction(comp)
        return tid, True
    if name == "reset":
        _, _, tot, comp, start = op
        sut(progress.reset, tid, total=tot, completed=comp, start=start)
        if tot is not None:
            m.total = tot
        m.completed = Fraction(comp)
        m.started = start
        m.finished_since = None
        m.negative = comp < 0
        return tid, False
    if name == "start_task":
        sut(progress.start_task, tid)
        m.started = True
        return tid, False
    if name == "stop_task":
        sut(progress.stop_task, tid)
        m.started = True
        return tid, False
    if name == "remove":
        sut(progress.remove_task, tid)
        del models[tid]
        return None
    raise AssertionError(op)


class Sequential(Part):
    name = "sequential"
    rule = ("<= 25 ops over add_task(total incl. 0 / negative / 1e18 / fractional, completed, start), advance, update(total?, completed?, advance?, visible?), "
            "reset, start_task, stop_task, remove_task, stop x clock increments (0, small, large); after every op every live task is compared with the "
            "model (completed, total, percentage, finished, fixed finish time, speed >= 0, time_remaining >= 0); non-trivial = a total change or reset "
            "between two advances of the same task")
    budget = {"quick": (8, 2000), "thorough": (16, 20000)}

    def strategy(self, tier):
        clock = st.lists(st.sampled_from([0, 0, 0.25, 1, 1, 2.5, 40, 1000]), min_size=1, max_size=8)
        free = st.lists(op_strategy(), min_size=1, max_size=25)
        adv = st.tuples(st.just("advance"), st.just(0), st.one_of(st.integers(0, 20), st.integers(0, 40).map(lambda k: k / 4))).map(list)
        change = st.one_of(st.tuples(st.just("update"), st.just(0), total(), st.none(), st.none(), st.none()), st.tuples(st.just("reset"), st.just(0), st.one_of(st.none(), total()), st.just(0), st.booleans())).map(list)
        # shaped: one task advanced, its total changed or the task reset, advanced again (finish time must be recomputed), then free ops
        shaped = st.builds(lambda t, a1, ch, a2, rest: [["add", t, 0, True]] + a1 + [ch] + a2 + rest, total(), st.lists(adv, min_size=1, max_size=4), change, st.lists(adv, min_size=1, max_size=4), st.lists(op_strategy(), max_size=10))
        return st.builds(lambda ops, c, render: {"ops": ops, "clock": c, "render": render}, st.one_of(free, shaped), clock, st.sampled_from([False, False, True]))

    def check(self, spec, ctx):
        from rich.console import Console
        from rich.progress import Progress, TextColumn

        clock = Clock(spec["clock"])
        con = Console(file=io.StringIO(), width=80, force_terminal=True, color_system=None, legacy_windows=False, _environ={})
        cols = [TextColumn("{task.description} {task.completed}")] if spec["render"] else []
        progress = sut(Progress, *cols, console=con, auto_refresh=False, get_time=clock, disable=not spec["render"], redirect_stdout=False, redirect_stderr=False)
        if spec["render"]:
            sut(progress.start)
        ids = []
        models = {}
        history = {}  # tid -> list of op kinds
        try:
            for op in spec["ops"]:
                r = apply_op(progress, ids, models, op, ctx)
                tids = list(models)
                for tid in tids:
                    task = progress._tasks[tid]
                    is_prog = r is not None and r[0] == tid and r[1]
                    if not check_task(ctx, task, models[tid], "%s %r" % (op[0], op), is_prog):
                        return
                if r is not None:
                    history.setdefault(r[0], []).append(op[0] if not (op[0] == "update" and op[2] is not None) else "total-change")
                if set(progress._tasks) != set(models):
                    ctx.violation("tasks", "C12/tasks/set", "live tasks %r, expected %r" % (sorted(progress._tasks), sorted(models)))
                    return
        finally:
            if spec["render"]:
                progress.stop()
        for h in history.values():
            s = "".join("a" if x in ("advance", "update") else ("R" if x in ("reset", "total-change") else "-") for x in h)
            if "aRa" in s.replace("-", ""):
                ctx.nontrivial = True
        if spec["render"]:
            ctx.cls("rendering")


class Track(Part):
    name = "track"
    rule = ("track() over a list / range / generator of length 0..1500 (mostly <= 50; lengths around 100 / 200 / 1000) with implicit or explicit total, auto_refresh on (real helper thread, update_period 1 ms; "
            "only the final state is asserted; or a period of 60 s, so that it never polls) and off, into a fresh task or an existing one, the source optionally raising "
            "after k elements (the caller catches it): yields every element once in order and leaves completed == number of elements yielded; non-trivial = generator input or auto_refresh on with >= 2 elements")
    budget = {"quick": (4, 150), "thorough": (16, 1500)}
    chunk = 150

    def strategy(self, tier):
        return st.builds(lambda n, kind, explicit, auto, existing, fail, period: {"n": n, "kind": kind, "explicit_total": explicit, "auto_refresh": auto, "existing": existing, "fails_after": fail, "period": period},
                         st.one_of(st.integers(0, 5), st.integers(0, 50), st.integers(0, 50), st.sampled_from([99, 100, 101, 199, 200, 201, 250, 299, 1000, 1234]), st.integers(51, 1500)), st.sampled_from(["list", "range", "generator"]), st.booleans(), st.booleans(), st.booleans(),
                         # the source fails part-way (a download stream that breaks): it raises instead of producing element number k (as a fraction of n); the caller catches the error
                         st.one_of(st.none(), st.none(), st.floats(0, 1)),
                         # how often the helper thread polls (with 60 s it never does before the end)
                         st.sampled_from([0.001, 0.001, 60]))

    def check(self, spec, ctx):
        from rich.console import Console
        from rich.progress import Progress

        n = spec["n"]
        con = Console(file=io.StringIO(), width=80, force_terminal=False, color_system=None, _environ={})
        progress = sut(Progress, console=con, auto_refresh=spec["auto_refresh"], redirect_stdout=False, redirect_stderr=False)
        items = ["item%d" % i for i in range(n)]
        if spec["kind"] == "list":
            seq = list(items)
        elif spec["kind"] == "range":
            seq = range(n)
            items = list(range(n))
        else:
            seq = (x for x in items)
        fails = None
        if spec.get("fails_after") is not None:
            fails = int(spec["fails_after"] * n)
            src = seq

            class SourceBroke(Exception):
                pass

            def failing():
                for k, x in enumerate(src):
                    if k == fails:
                        break
                    yield x
                raise SourceBroke("the source failed after %d elements" % fails)

            seq = failing()
            ctx.cls("source-fails-part-way")
        total = n if (spec["explicit_total"] or spec["kind"] == "generator" or fails is not None) else None
        tid = None
        if spec["existing"]:
            tid = sut(progress.add_task, "existing", total=7, start=True)
        got = []
        try:
            for v in sut(progress.track, seq, total=total, task_id=tid, update_period=spec.get("period", 0.001)):
                got.append(v)
        except Exception as e:  # noqa
            if fails is None or type(e).__name__ != "SourceBroke":
                raise
        if fails is not None:
            items = items[:fails]
        yielded = len(items)
        if got != items:
            ctx.violation("track", "C12/track/elements", "track() yielded %r, the sequence is %r" % (got[:10], items[:10]))
            return
        task = progress.tasks[-1] if tid is None else progress._tasks[tid]
        if task.completed != yielded:
            ctx.violation("track", "C12/track/completed" + ("-source-failed" if fails is not None else ""), "after track() yielded %d elements%s (auto_refresh=%r, %s, polling every %r s) completed = %r" % (
                yielded, " and the source then raised" if fails is not None else "", spec["auto_refresh"], spec["kind"], spec.get("period", 0.001), task.completed))
            return
        if task.total != n:
            ctx.violation("track", "C12/track/total", "task total %r, expected %d" % (task.total, n))
            return
        if spec["kind"] == "generator" or (spec["auto_refresh"] and n >= 2):
            ctx.nontrivial = True
        ctx.cls("auto" if spec["auto_refresh"] else "manual", spec["kind"])


PARTS = [Sequential(), Track()]


# ------------------------------------------------------------------------------------------------ concurrency
def run_concurrent(prog, preempt, tape, ctx_violations):
    """Run a multi-thread program under the scheduler. Returns (steps, switches_in_rich, final ok flag)."""
    import rich.progress
    from rich.console import Console
    from rich.progress import Progress
    from ..oracles.sched import Sched, CoopRLock, Deadlock, HarnessTimeout

    clock = Clock(prog["clock"])
    con = Console(file=io.StringIO(), width=80, force_terminal=False, color_system=None, _environ={})
    progress = Progress(console=con, auto_refresh=False, get_time=clock, disable=True, redirect_stdout=False, redirect_stderr=False)
    tids = [progress.add_task("t", total=t, start=True) for t in prog["tasks"]]
    s = Sched(dict((int(a), int(b)) for a, b in preempt), files={rich.progress.__file__}, tape=tape)
    progress._lock = CoopRLock(s, "progress")
    expected = {tid: Fraction(0) for tid in tids}
    touched = set()
    problems = ctx_violations

    own = []  # (thread, id returned by add_task, amount advanced on it)

    def make(ops, name):
        def body():
            for op in ops:
                if op[0] == "add":
                    new = progress.add_task("own-" + name, total=op[1])
                    own.append((name, new, op[2]))
                    progress.advance(new, op[2])
                    continue
                tid = tids[op[1] % len(tids)]
                if op[0] == "reset":
                    progress.reset(tid)
                    continue
                if op[0] == "advance":
                    progress.advance(tid, op[2])
                elif op[0] == "update":
                    progress.update(tid, advance=op[2])
                else:
                    progress.update(tid, visible=bool(op[2] % 2))
                    continue
                task = progress._tasks[tid]
                with progress._lock:  # readers (the display) look at tasks under the progress lock
                    sp = task.speed
                    tr = task.time_remaining
                    p = task.percentage
                    samples = [(x.timestamp, x.completed) for x in task._progress]
                if sp is not None and sp < 0:
                    problems.append(("speed", "C12/concurrent/speed-negative", "%s after %r: speed = %r, samples %r" % (name, op, sp, samples)))
                if tr is not None and tr < 0:
                    problems.append(("speed", "C12/concurrent/time-remaining-negative", "%s after %r: time_remaining = %r" % (name, op, tr)))
                if not (0.0 <= p <= 100.0):
                    problems.append(("percentage", "C12/concurrent/percentage", "%s after %r: percentage %r" % (name, op, p)))
        return body

    was_reset = set()
    for i, ops in enumerate(prog["threads"]):
        for op in ops:
            if op[0] in ("advance", "update"):
                expected[tids[op[1] % len(tids)]] += Fraction(op[2])
                touched.add(tids[op[1] % len(tids)])
            elif op[0] == "reset":
                was_reset.add(tids[op[1] % len(tids)])
        s.add(make(ops, "T%d" % i), "T%d" % i)
    try:
        s.run(timeout=30)
    except Deadlock as e:
        problems.append(("deadlock", "C12/concurrent/deadlock", str(e)))
        return s.step, s.switch_in_rich
    for w in s.workers:
        if w.exc is not None:
            problems.append(("exception", "C12/concurrent/exc-%s" % type(w.exc).__name__, "%s raised %r" % (w.name, w.exc)))
    ids = [new for _, new, _ in own]
    if len(set(ids)) != len(ids) or set(ids) & set(tids):
        problems.append(("completed", "C12/concurrent/duplicate-task-id", "add_task returned ids %r to concurrent callers (existing ids %r; schedule %r)" % (own, tids, s.trace[:6])))
    elif len(progress._tasks) != len(tids) + len(own):
        problems.append(("completed", "C12/concurrent/task-lost", "%d tasks registered, %d were added" % (len(progress._tasks), len(tids) + len(own))))
    else:
        for name, new, amount in own:
            task = progress._tasks.get(new)
            if task is None or Fraction(task.completed) != Fraction(amount) or task.description != "own-" + name:
                problems.append(("completed", "C12/concurrent/own-task", "task %r added by %s and advanced by %r is %r (schedule %r)" % (new, name, amount, task, s.trace[:6])))
    for tid in tids:
        task = progress._tasks[tid]
        if tid in was_reset:
            # with a reset somewhere in the program the final count depends on the order; what holds in every order: a started task whose count has reached a
            # positive total through advances is finished (reset itself clears count and finish time together)
            if task.total > 0 and task.completed >= task.total and task.started and not task.finished:
                problems.append(("finished", "C12/concurrent/finished-after-reset", "task %d: completed %r >= total %r but not finished (a reset ran concurrently; schedule %r)" % (tid, task.completed, task.total, s.trace[:6])))
            continue
        if Fraction(task.completed) != expected[tid]:
            problems.append(("completed", "C12/concurrent/lost-update", "task %d completed = %r, the advances sum to %s (schedule %r)" % (tid, task.completed, expected[tid], s.trace[:6])))
        if tid in touched and expected[tid] >= Fraction(task.total) and not task.finished:
            problems.append(("finished", "C12/concurrent/finished", "task %d completed %s >= total %r but not finished" % (tid, expected[tid], task.total)))
    return s.step, s.switch_in_rich


FIXED_PROGRAMS = [
    {"tasks": [10], "threads": [[["advance", 0, 1], ["advance", 0, 2]], [["advance", 0, 4], ["update", 0, 8]]], "clock": [1]},
    {"tasks": [3, 5], "threads": [[["advance", 0, 1], ["update", 1, 5]], [["update", 0, 2], ["advance", 1, 0.25]], [["advance", 0, 0.5]]], "clock": [0.5, 2]},
    {"tasks": [4], "threads": [[["advance", 0, 1]], [["advance", 0, 1]], [["advance", 0, 1]], [["advance", 0, 1]]], "clock": [1, 0, 3]},
    {"tasks": [100], "threads": [[["update", 0, 1], ["visible", 0, 1], ["advance", 0, 1]], [["advance", 0, 3], ["advance", 0, 3], ["advance", 0, 3]]], "clock": [40, 1]},
    {"tasks": [5], "threads": [[["add", 10, 1], ["advance", 0, 1]], [["add", 20, 2]], [["advance", 0, 2], ["add", 3, 3]]], "clock": [1]},
    {"tasks": [2], "threads": [[["reset", 0]], [["advance", 0, 2]], [["advance", 0, 3]]], "clock": [1]},
]


class SchedulesExhaustive(Part):
    name = "schedules-exhaustive"
    custom = True
    exhaustive = True
    rule = ("6 fixed programs of 2-4 threads advancing shared tasks (one with threads that add tasks of their own, one with a concurrent reset); every schedule with one preemption (quick) and with two preemptions (thorough; pairs "
            "capped per program) at every yield point = traced line of rich/progress.py or operation of the (proxied) progress lock; final counters must equal "
            "the sum of the advances, speed/time_remaining never negative after any op; non-trivial (distinct by construction) = schedules that switched threads inside a rich frame")
    budget = {"quick": (16, 1), "thorough": (16, 1)}

    def run_shard(self, tier, shard, nshards, seed, stats, deadline, known):
        import time as _t

        n = 0
        nt = 0
        found = {}
        for pi, prog in enumerate(FIXED_PROGRAMS):
            probs = []
            steps, _ = run_concurrent(prog, [], [0], probs)
            nthreads = len(prog["threads"])
            scheds = [[(k, c)] for k in range(steps) for c in range(nthreads - 1)]
            if tier == "thorough":
                pairs = [[(a, ca), (b, cb)] for a in range(0, steps, 2) for b in range(a + 1, steps, 3) for ca in range(nthreads - 1) for cb in range(1)]
                scheds += pairs[:6000]
            for si, sch in enumerate(scheds):
                if si % nshards != shard:
                    continue
                probs = []
                _, sw = run_concurrent(prog, sch, [0, 1, 2], probs)
                n += 1
                if sw:
                    nt += 1
                for clause, sig, detail in probs:
                    if sig not in found:
                        found[sig] = ({"program": pi, "preempt": [list(x) for x in sch], "tape": [0, 1, 2]}, clause, detail)
                if _t.time() > deadline:
                    stats.capped = True
                    break
        stats.evaluations += n
        stats.nontrivial_count_distinct += nt
        if not stats.capped:
            stats.done += 1
        stats.samples.append((1, {"shard": shard, "programs": len(FIXED_PROGRAMS), "schedules_run": n, "example_schedule": [[7, 0]]}, "range"))
        for sig, (spec, clause, detail) in found.items():
            e = known.match(sig)
            if e:
                stats.excluded_known[e["id"]] = stats.excluded_known.get(e["id"], 0) + 1
                continue
            stats.found[sig] = {"spec": spec, "clause": clause, "detail": detail, "size": 1, "part": self.name}

    def replay(self, spec, ctx):
        probs = []
        run_concurrent(FIXED_PROGRAMS[spec["program"]], spec["preempt"], spec["tape"], probs)
        for clause, sig, detail in probs:
            ctx.violation(clause, sig, detail)


class SchedulesGenerated(Part):
    name = "schedules-generated"
    rule = ("generated programs (2-6 threads x 1-4 ops advance/update(advance=)/update(visible=)/add_task-then-advance over 1-3 shared tasks, integer or quarter amounts, generated "
            "clock) x generated schedules (<= 6 preemptions at arbitrary yield points, generated tie-break tape); non-trivial = the schedule switched threads "
            "inside a rich frame and two threads advanced the same task")
    budget = {"quick": (8, 800), "thorough": (16, 10000)}

    def strategy(self, tier):
        amt = st.one_of(st.integers(0, 5), st.integers(0, 20).map(lambda k: k / 4))
        op = st.one_of(st.tuples(st.just("advance"), st.integers(0, 2), amt), st.tuples(st.just("advance"), st.integers(0, 2), amt), st.tuples(st.just("update"), st.integers(0, 2), amt), st.tuples(st.just("visible"), st.integers(0, 2), st.integers(0, 1)),
                       st.tuples(st.just("add"), st.sampled_from([1, 10, 0]), st.integers(0, 5)), st.tuples(st.just("reset"), st.integers(0, 2), st.just(0))).map(list)
        prog = st.builds(lambda tasks, threads, clock: {"tasks": tasks, "threads": threads, "clock": clock},
                         st.lists(st.sampled_from([1, 3, 10, 100, 0]), min_size=1, max_size=3), st.lists(st.lists(op, min_size=1, max_size=4), min_size=2, max_size=6), st.lists(st.sampled_from([0, 0.5, 1, 2, 40]), min_size=1, max_size=5))
        pre = st.lists(st.tuples(st.integers(0, 160), st.integers(0, 4)).map(list), max_size=6)
        return st.builds(lambda p, pre, tape: {"prog": p, "preempt": pre, "tape": tape}, prog, pre, st.lists(st.integers(0, 5), min_size=1, max_size=6))

    def check(self, spec, ctx):
        probs = []
        steps, sw = run_concurrent(spec["prog"], spec["preempt"], spec["tape"], probs)
        for clause, sig, detail in probs:
            ctx.violation(clause, sig, detail)
        shared = set()
        for i, ops in enumerate(spec["prog"]["threads"]):
            for op in ops:
                if op[0] not in ("visible", "add", "reset"):
                    shared.add((op[1] % len(spec["prog"]["tasks"]), i))
        per_task = {}
        for t, i in shared:
            per_task.setdefault(t, set()).add(i)
        if sw and any(len(v) >= 2 for v in per_task.values()):
            ctx.nontrivial = True
        ctx.cls("threads-%d" % len(spec["prog"]["threads"]))


def run_track_scheduled(n, preempt, tape, problems, existing=False, total=None):
    """track() with its helper thread (auto_refresh on): consumer and helper are both run by the scheduler."""
    import rich.progress as RP
    from rich.console import Console
    from rich.progress import Progress
    from ..oracles.sched import Sched, CoopRLock, CoopEvent, Deadlock

    con = Console(file=io.StringIO(), width=80, force_terminal=False, color_system=None, _environ={})
    clock = Clock([1])
    progress = Progress(console=con, auto_refresh=True, get_time=clock, disable=True, redirect_stdout=False, redirect_stderr=False)
    s = Sched(dict((int(a), int(b)) for a, b in preempt), files={RP.__file__}, tape=tape)
    progress._lock = CoopRLock(s, "progress")
    TT = RP._TrackThread
    saved = (TT.__init__, TT.start, TT.join)

    def init(self, progress_, task_id, update_period):
        saved[0](self, progress_, task_id, update_period)
        self.done = CoopEvent(s, "track-done")

    got = []
    items = list(range(n))
    tid = progress.add_task("existing", total=3) if existing else None
    try:
        TT.__init__ = init
        TT.start = lambda self: setattr(self, "_vp_worker", s.spawn(self.run, "track-helper"))
        TT.join = lambda self, timeout=None: s.join(self._vp_worker)

        def consumer():
            for v in progress.track(items, total=total, task_id=tid, update_period=0.001):
                got.append(v)

        s.add(consumer, "consumer")
        try:
            s.run(timeout=30)
        except Deadlock as e:
            problems.append(("deadlock", "C12/track-concurrent/deadlock", str(e)))
            return s.step, s.switch_in_rich
    finally:
        TT.__init__, TT.start, TT.join = saved
    for w in s.workers:
        if w.exc is not None:
            problems.append(("exception", "C12/track-concurrent/exc-%s" % type(w.exc).__name__, "%s raised %r" % (w.name, w.exc)))
    if got != items:
        problems.append(("track", "C12/track-concurrent/elements", "yielded %r of %r" % (got, items)))
    task = progress.tasks[-1] if tid is None else progress._tasks[tid]
    if task.completed != n:
        problems.append(("track", "C12/track-concurrent/completed", "after track() over %d elements completed = %r (schedule %r)" % (n, task.completed, s.trace[:6])))
    return s.step, s.switch_in_rich


class TrackSchedules(Part):
    name = "track-schedules"
    custom = True
    exhaustive = True
    rule = ("track() over 4 elements with auto_refresh on: the consumer and the helper thread (started through the scheduler, its Event replaced by a cooperative one) "
            "under every schedule with one preemption and every pair of preemptions (quick: pairs on a stride; thorough: all pairs) at traced lines of rich/progress.py and "
            "progress-lock operations; completed must equal the number of elements yielded; non-trivial (distinct by construction) = schedules that switched inside a rich frame")
    budget = {"quick": (16, 1), "thorough": (16, 1)}

    def run_shard(self, tier, shard, nshards, seed, stats, deadline, known):
        import time as _t

        n_el = 4
        probs = []
        steps, _ = run_track_scheduled(n_el, [], [0], probs)
        found = {}
        for clause, sig, detail in probs:
            found.setdefault(sig, ({"n": n_el, "preempt": [], "tape": [0]}, clause, detail))
        stride = 1
        scheds = [[(a, 0)] for a in range(steps)] + [[(a, 0), (b, 0)] for a in range(0, steps, stride) for b in range(a + 1, steps if tier == "thorough" else min(steps, a + 200), stride)]
        n = 0
        nt = 0
        for si, sch in enumerate(scheds):
            if si % nshards != shard:
                continue
            if _t.time() > deadline:
                stats.capped = True
                break
            probs = []
            # every third schedule: the caller's total is smaller than the number of elements that are then yielded (an under-estimated generator length)
            total = 2 if si % 3 == 2 else None
            _, sw = run_track_scheduled(n_el, sch, [0, 1], probs, existing=bool(si % 2), total=total)
            n += 1
            nt += 1 if sw else 0
            for clause, sig, detail in probs:
                if sig not in found:
                    found[sig] = ({"n": n_el, "preempt": [list(x) for x in sch], "tape": [0, 1], "existing": bool(si % 2), "total": total}, clause, detail)
        stats.evaluations += n
        stats.nontrivial_count_distinct += nt
        if not stats.capped:
            stats.done += 1
        stats.samples.append((1, {"shard": shard, "yield_points": steps, "schedules_run": n}, "range"))
        for sig, (spec, clause, detail) in found.items():
            if known.match(sig):
                continue
            stats.found[sig] = {"spec": spec, "clause": clause, "detail": detail, "size": 1, "part": self.name}

    def replay(self, spec, ctx):
        probs = []
        run_track_scheduled(spec["n"], spec["preempt"], spec["tape"], probs, existing=spec.get("existing", False), total=spec.get("total"))
        for clause, sig, detail in probs:
            ctx.violation(clause, sig, detail)


PARTS = [Sequential(), Track(), SchedulesExhaustive(), SchedulesGenerated(), TrackSchedules()]
