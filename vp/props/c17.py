"""C17 - Syntax and tracebacks show the source line for line under the right numbers."""
import io
import os
import re
import sys
import shutil
import tempfile
import linecache
import importlib.util
from hypothesis import strategies as st

from ..core import Part, sut
from ..gen import chars as GC
from ..oracles import cells as OC

PROP_ID = "C17"
LEVEL = "exploration"
RULE = "Hypothesis: source strings built from line lists x lexers x options; gutter-split output lines vs the source lines; generated raising modules (a few lines to ~20000 lines) rendered through Traceback vs the file's lines"
ASSUMPTIONS = [
    "sources are CRLF-free; the exactness clause is judged at a width large enough not to crop or wrap; where a line is cropped (narrow console or code_width, no word wrap) the numbers only are judged; with word_wrap nothing may be lost at any width: the rows of a line joined equal the line, white space aside (wrapping breaks at and drops white space)",
    "blank lines at the very end of the code are not compared (the statement sets them aside)",
    "a line range is only given together with line numbers (the statement defines its effect only then) and ends at line >= 1",
    "with indent guides on, the guide character in leading indentation is mapped back to a space",
    "generated modules live in a temporary directory outside /repo and /verif that is removed after each case",
]

LINES = ["x = 1", "def f(a, b):", "    return a + b", "", "", "\tif x:", "\t\tpass", "# 漢字 comment", "s = 'str [bold] \\\\ '", "    ", "{\"k\": [1, 2, 3]}", "<p class=\"c\">t</p>", "  two", "ab\tcd", "y = (1,", "     2)", "class A:", "        deep = 4", "😀 = 1"]
LEXERS = ["python", "python", "json", "html", "text", "no-such-lexer-xyz"]
THEMES = ["monokai", "ansi_dark", "default"]
GUIDE = "│"


def source():
    line = st.one_of(st.sampled_from(LINES), st.sampled_from(LINES), st.sampled_from(LINES), st.text(st.sampled_from("abc =(){}[]#'\".:,_1\t" + GC.WIDE[:4]), max_size=14),
                     st.sampled_from(["\x0c", "\x0c", "# page\x0c", "a = 1\x0bb", "s = 'x\u2028y'", "# \u2029 end"]),
                     # lines whose width in cells is far from their length in characters (dense wide characters), long enough to pass a code width
                     st.text(st.sampled_from(GC.WIDE + "ab =#'(,"), min_size=6, max_size=36))
    return st.builds(lambda lead, body, trail, nl: "\n" * lead + "\n".join(body) + "\n" * trail + ("\n" if nl else ""), st.sampled_from([0, 0, 1, 2, 3]), st.lists(line, max_size=8), st.sampled_from([0, 0, 1, 3]), st.booleans())


SPECIAL_SEPARATORS = "\x0b\x0c\u2028\u2029"   # line boundaries for str.splitlines() but not for Python, the gutter or Text.split("\n")
STRIPPED_BY_TEXT = "\x07\x08\x0b\x0c\r"


def expected_lines(code, tab_size):
    """The source lines as they can be displayed: tabs expanded; Text removes the control characters BEL BS VT FF CR (documented strip_control_codes)."""
    lines = "".join(c for c in code if c not in STRIPPED_BY_TEXT).expandtabs(tab_size).split("\n")
    return lines


def squeeze(t):
    """Without white space (a wrapped line is broken at, and loses, white space only)."""
    return re.sub(r"\s+", "", t)


def strip_trailing_blank(pairs):
    while pairs and pairs[-1][-1].strip() == "":
        pairs.pop()
    return pairs


class SyntaxLines(Part):
    name = "syntax"
    rule = ("sources of 0-8 lines with 0-3 leading and trailing blank lines, tabs, wide characters, with/without final newline x lexer {python, json, html, "
            "text, unknown}; lines include runs of 6-36 characters dense in double-width characters (cell width far from the character count) x line_numbers x start_line 1..10000 x line_range (inside, straddling, beyond, start < 1) x highlight_lines x word_wrap x "
            "code_width 8..60 x indent_guides x theme x tab_size x width (wide: exact text; narrow or lines wider than code_width: numbers only, and with word_wrap the characters of every line - continuation rows joined, white space aside - must all be there, with or without the gutter) x 1-3 renders of the same object, optionally made for and shown with other code first (its .code replaced afterwards); sources may contain FF/VT/U+2028/U+2029 "
            "(line boundaries for str.splitlines only); non-trivial = line numbers on and (a leading "
            "blank line or a range crossing the end)")
    budget = {"quick": (8, 800), "thorough": (16, 8000)}
    chunk = 400

    def strategy(self, tier):
        rng = st.one_of(st.none(), st.none(), st.tuples(st.integers(-2, 12), st.integers(1, 14)).map(lambda t: [t[0], max(1, t[0], t[1])]))
        return st.builds(
            lambda code, lexer, ln, start, lr, hl, ww, cw, ig, theme, ts, narrow, rn, fp, ft, rc: {"recode": rc, "code": code, "lexer": lexer, "line_numbers": ln, "start_line": start, "line_range": lr if ln else None, "highlight": hl,
                                                                                    "word_wrap": ww, "code_width": cw, "indent_guides": ig, "theme": theme, "tab_size": ts, "narrow": narrow, "renders": rn, "from_path": fp, "fitted": ft},
            source(), st.sampled_from(LEXERS), st.sampled_from([True, True, False]), st.one_of(st.just(1), st.integers(1, 10000), st.sampled_from([9, 99, 999])), rng,
            st.lists(st.integers(1, 12), max_size=3), st.booleans(), st.one_of(st.none(), st.none(), st.integers(20, 60), st.integers(8, 60)), st.booleans(), st.sampled_from(THEMES), st.sampled_from([4, 4, 8, 2]),
            st.one_of(st.none(), st.none(), st.integers(12, 30)), st.sampled_from([1, 1, 2, 3]), st.sampled_from([None, None, None, "json", "html", "py", "txt", "python"]), st.sampled_from([False, False, True]),
            # history: the object was made for (and shown with) other code first, then its .code attribute was replaced
            st.sampled_from([None, None, None, "x = 1", "a\nb\nc\n", "\n" * 12 + "z"]),
        )

    def check(self, spec, ctx):
        from rich.console import Console
        from rich.syntax import Syntax

        code = spec["code"]
        ts = spec["tab_size"]
        start = spec["start_line"]
        lr = spec["line_range"]
        numbers = spec["line_numbers"]
        W = spec["narrow"] if spec["narrow"] else 400
        if spec.get("from_path"):
            # history: a file of that kind was shown with Syntax.from_path earlier in the process
            d0 = tempfile.mkdtemp(prefix="vp_c17p_")
            try:
                path0 = os.path.join(d0, "earlier." + spec["from_path"])
                with open(path0, "w", encoding="utf-8") as fh:
                    fh.write("\n\n{\"a\": 1}\n")
                earlier = sut(Syntax.from_path, path0, line_numbers=True)
                c0 = sut(Console, file=io.StringIO(), width=60, color_system=None, _environ={})
                sut(c0.print, earlier)
            finally:
                shutil.rmtree(d0, ignore_errors=True)
            ctx.cls("after-from_path")
        syn = sut(Syntax, code if spec.get("recode") is None else spec["recode"], spec["lexer"], theme=spec["theme"], line_numbers=numbers, start_line=start, line_range=tuple(lr) if lr else None,
                  highlight_lines=set(spec["highlight"]), word_wrap=spec["word_wrap"], code_width=spec["code_width"] if not spec["narrow"] else None, indent_guides=spec["indent_guides"], tab_size=ts)
        if spec.get("recode") is not None:
            c1 = sut(Console, file=io.StringIO(), width=W, color_system=None, _environ={})
            sut(c1.print, syn)
            syn.code = code
            ctx.cls("code-replaced-after-first-use")
        # the same Syntax object is rendered more than once (a Live refresh, two consoles): every render shows the same lines
        for ri in range(spec.get("renders", 1)):
            con = sut(Console, file=io.StringIO(), width=W, color_system="truecolor", force_terminal=True, legacy_windows=False, _environ={})
            if not self.verify(spec, ctx, syn, con, W, " (render %d of the same object)" % (ri + 1) if ri else ""):
                return
        src = expected_lines(code, ts)
        lead = len(code) - len(code.lstrip("\n"))
        crossing = bool(lr) and lr[1] > len(src) - (1 if code.endswith("\n") else 0)
        if numbers and (lead or crossing):
            ctx.nontrivial = True
        if lead:
            ctx.cls("leading-blank-lines")
        if crossing:
            ctx.cls("range-crossing-end")
        if spec.get("renders", 1) > 1:
            ctx.cls("rendered-twice")
        if any(c in code for c in SPECIAL_SEPARATORS):
            ctx.cls("separator-characters")
        ctx.cls("lexer-" + spec["lexer"])

    def verify(self, spec, ctx, syn, con, W, again):
        code = spec["code"]
        ts = spec["tab_size"]
        start = spec["start_line"]
        lr = spec["line_range"]
        numbers = spec["line_numbers"]
        target = syn
        if spec.get("fitted") and not spec["narrow"]:
            # inside something that measures its child first and renders it at the measured width (Align, as print(justify=...) uses it)
            from rich.align import Align

            target = Align(syn, "left")
            ctx.cls("measured-then-rendered")
        segs = sut(lambda: list(con.render(target, con.options)))
        out = "".join(s.text for s in segs if not s.is_control)
        out_lines = out.split("\n")
        if out_lines and out_lines[-1] == "":
            out_lines.pop()
        src = expected_lines(code, ts)
        if src and src[-1] == "" and code.endswith("\n"):
            src = src[:-1]
        indexed = list(enumerate(src))
        if numbers and lr:
            a, b = lr
            indexed = indexed[max(0, a - 1):max(0, b)]
        want = [(start + i, l.rstrip()) for i, l in indexed]
        desc = "Syntax(%r, %r, line_numbers=%r, start_line=%d, line_range=%r, word_wrap=%r, code_width=%r, indent_guides=%r, tab_size=%d) at width %d%s" % (
            code, spec["lexer"], numbers, start, lr, spec["word_wrap"], spec["code_width"], spec["indent_guides"], ts, W, again)
        exact = not spec["narrow"] and (spec["code_width"] is None or all(OC.width(l) <= spec["code_width"] for _, l in want))
        if numbers:
            ncw = len(str(start + code.count("\n"))) + 2
            got = []
            for ln in out_lines:
                marker, field, rest = ln[:2], ln[2:ncw], ln[ncw + 1:]
                if field.strip() == "":
                    if got:
                        got[-1] = (got[-1][0], got[-1][1], got[-1][2] + rest)  # continuation of a wrapped line
                    continue
                if not field.strip().isdigit() or ln[ncw:ncw + 1] not in (" ", ""):
                    ctx.violation("gutter", "C17/gutter/format", "%s: cannot split gutter of %r (number column %d wide)" % (desc, ln, ncw))
                    return False
                got.append((int(field), marker, rest))
            got_pairs = [(n, t.rstrip()) for n, _, t in got]
            if spec["indent_guides"]:
                def unguide(t):
                    m = re.match(r"^[ %s]*" % GUIDE, t)
                    return t[:m.end()].replace(GUIDE, " ") + t[m.end():]
                got_pairs = [(n, unguide(t).rstrip()) for n, t in got_pairs]
            # only blank lines at the very end of the *code* are optional; blank lines inside a range that ends earlier are part of the selection
            last_nonblank = max([i for i, l in enumerate(src) if l.strip()] + [-1])
            wp = [(n, t) for n, t in want if t.strip() or (n - start) <= last_nonblank]
            wp = want[:len(wp)] if all(a == b for a, b in zip(wp, want)) else strip_trailing_blank(list(want))
            gn = [n for n, _ in got_pairs]
            wn_all = [n for n, _ in want]
            lead = len(code) - len(code.lstrip("\n"))
            if gn != wn_all[:len(gn)] or len(gn) < len(wp):
                sig = "leading-blank" if lead else ("range" if lr else "sequence")
                ctx.violation("numbers", "C17/numbers/" + sig, "%s: shows line numbers %r, expected %r (trailing blank lines optional)\n%s" % (desc, gn, wn_all, out))
                return False
            gp = got_pairs[:len(wp)]
            extra = got_pairs[len(wp):]
            if exact and any(t.strip() for _, t in extra):
                ctx.violation("text", "C17/text/numbered", "%s: text after the last source line: %r" % (desc, extra))
                return False
            if exact and not spec["word_wrap"]:
                if gp != wp:
                    bad = [(g, w) for g, w in zip(gp, wp) if g != w][:2]
                    ctx.violation("text", "C17/text/%s" % ("leading-blank" if lead else "numbered"), "%s: line text differs: %r\n%s" % (desc, bad, out))
                    return False
            elif exact:
                if [(n, t.replace(" ", "")) for n, t in gp] != [(n, t.replace(" ", "")) for n, t in wp]:
                    ctx.violation("text", "C17/text/numbered-wrapped", "%s: characters differ" % desc)
                    return False
            elif spec["word_wrap"]:
                # word wrap was asked for and a line does not fit (or the console is narrow): the line continues on rows without a number, nothing of it is lost
                gs, ws = [(n, squeeze(t)) for n, t in gp], [(n, squeeze(t)) for n, t in wp]
                if gs != ws:
                    bad = [(g, w) for g, w in zip(gs, ws) if g != w][:2]
                    ctx.violation("text", "C17/text/wrapped-lost", "%s: characters of a wrapped line differ (white space aside): %r\n%s" % (desc, bad, out))
                    return False
                ctx.cls("wrapped-long-lines-compared")
            for n, marker, _ in got:
                hl = n in set(spec["highlight"])
                if (marker == "❱ ") != hl:
                    ctx.violation("highlight", "C17/highlight/marker", "%s: line %d marker %r, highlight_lines=%r" % (desc, n, marker, spec["highlight"]))
                    return False
        else:
            if exact and not spec["word_wrap"]:
                gl = [l.rstrip() for l in out_lines]
                wl = [l for _, l in want]
                while gl and gl[-1] == "":
                    gl.pop()
                while wl and wl[-1] == "":
                    wl.pop()
                if gl != wl:
                    lead = len(code) - len(code.lstrip("\n"))
                    ctx.violation("text", "C17/text/%s" % ("leading-blank" if lead else "plain"), "%s: lines %r, source lines %r" % (desc, gl, wl))
                    return False
            elif spec["word_wrap"]:
                # without the gutter the wrapped rows cannot be attributed to lines: all the characters of the code are shown, in order
                g, w = squeeze("".join(out_lines)), squeeze("".join(l for _, l in want))
                if g != w:
                    ctx.violation("text", "C17/text/plain-wrapped-lost", "%s: characters shown %r, characters of the source %r (white space aside)" % (desc, g, w))
                    return False
        return True


class Tracebacks(Part):
    name = "traceback"
    rule = ("generated modules (0-4 leading blank lines, 0-6 filler lines, 1-3 nested calls, failing line first/middle/last, with/without trailing newline, "
            "tabs or spaces) written to a temp dir as a .py / .pyw / extensionless / SConstruct / .tac file, imported, run; Traceback.from_exception rendered at width 120: every frame of the module has a "
            "line marked as failing that shows frame.lineno and linecache's text; non-trivial = >= 1 leading blank line or failing line is the last line")
    budget = {"quick": (8, 60), "thorough": (16, 500)}
    chunk = 60

    def strategy(self, tier):
        return st.builds(lambda lead, filler, depth, pos, nl, tabs, wide, wrap, pb, rec, enc, rel, sl, fname: {"fname": fname, "lead": lead, "filler": filler, "depth": depth, "pos": pos, "final_newline": nl, "tabs": tabs, "wide": wide, "wrap": wrap, "pagebreaks": pb, "recursive": rec,
                                                                                              "encoding": enc, "relative": rel, "symlink": sl},
                         st.integers(0, 4), st.integers(0, 6), st.integers(1, 3), st.sampled_from(["first", "middle", "last"]), st.booleans(), st.booleans(), st.booleans(),
                         st.sampled_from(["none", "none", "finally", "with"]), st.sampled_from([0, 0, 1, 4, 6]), st.sampled_from([0, 0, 1, 3]), st.sampled_from(["utf-8", "utf-8", "latin-1"]), st.sampled_from([False, False, True]), st.sampled_from([False, False, False, True]),
                         # the file's name: a module, a windowed script, a script without an extension (as installed in bin/), an SCons / twisted file
                         st.sampled_from(["genmod.py", "genmod.py", "genmod.py", "genmod.pyw", "genmod", "SConstruct", "genmod.tac"]))

    def check(self, spec, ctx):
        from rich.console import Console
        from rich.traceback import Traceback

        d = tempfile.mkdtemp(prefix="vp_c17_")
        try:
            # the same path is rewritten with a differently shaped module and rendered again: a rendered traceback must show the file as it is now
            versions = [spec, dict(spec, lead=(spec["lead"] + 2) % 5, filler=(spec["filler"] + 3) % 7, pos="first" if spec["pos"] != "first" else "last")]
            for vi, version in enumerate(versions):
                if not self.one_version(ctx, d, version, vi):
                    return
            if spec["lead"] or spec["pos"] == "last":
                ctx.nontrivial = True
            if spec["lead"]:
                ctx.cls("leading-blank-lines")
            if spec.get("pagebreaks"):
                ctx.cls("form-feeds-above")
            if spec.get("recursive"):
                ctx.cls("same-function-at-several-lines")
            if spec.get("encoding") == "latin-1":
                ctx.cls("latin-1-source")
            if spec.get("relative"):
                ctx.cls("relative-file-name-after-chdir")
        finally:
            shutil.rmtree(d, ignore_errors=True)
            linecache.clearcache()

    def one_version(self, ctx, d, spec, vi):
        from rich.console import Console
        from rich.traceback import Traceback

        ind = "\t" if spec["tabs"] else "    "
        enc = spec.get("encoding", "utf-8")
        head = ["# -*- coding: latin-1 -*-", "# caf\u00e9 na\u00efve"] if enc == "latin-1" else []   # a readable source file that is not UTF-8
        lines = head + [""] * spec["lead"] + ["\x0c", "# section", ""] * spec.get("pagebreaks", 0)   # form feeds: the page breaks of GNU-style sources
        msg = "漢字 boom" if (spec["wide"] and enc == "utf-8") else "boom"
        body = []
        for dd in range(spec["depth"]):
            name = "f%d" % dd
            last = dd == spec["depth"] - 1
            rec = spec.get("recursive", 0) if last else 0
            body.append("def %s(v%s):" % (name, ", d=0" if rec else ""))
            fill = ["%sv = v + %d" % (ind, k) for k in range(spec["filler"])]
            call = "%sreturn f%d(v)" % (ind, dd + 1) if not last else "%sraise ValueError(%r)" % (ind, msg)
            # the raising function calls itself first: several frames of one name in one file, at different lines
            recursion = ["%sif d < %d:" % (ind, rec), "%s%sreturn %s(v, d + 1)" % (ind, ind, name)] if rec else []
            wrap = spec.get("wrap", "none")
            if wrap == "finally":
                # the frame runs more code (the finally body) after the exception passed through it
                call = ["%stry:" % ind, ind + call, "%sfinally:" % ind, "%s%sv = 0" % (ind, ind), "%s%sv = v + 1" % (ind, ind)]
            elif wrap == "with":
                call = ["%swith _Ctx():" % ind, ind + call, "%sv = 0" % ind]
            else:
                call = [call]
            call = recursion + call
            if spec["pos"] == "first":
                body.extend(call + fill)
            elif spec["pos"] == "last":
                body.extend(fill + call)
            else:
                h = len(fill) // 2
                body.extend(fill[:h] + call + fill[h:])
            body.append("")
        if spec["pos"] == "last":
            # the raising function is written last so that its failing line is the last line of the file
            body = body[:-1]
        if spec.get("wrap") == "with":
            lines += ["class _Ctx:", "%sdef __enter__(self):" % ind, "%s%sreturn self" % (ind, ind), "%sdef __exit__(self, *exc):" % ind, "%s%sreturn False" % (ind, ind), ""]
        lines += body
        text = "\n".join(lines) + ("\n" if spec["final_newline"] else "")
        fname = spec.get("fname", "genmod.py")
        if fname != "genmod.py":
            ctx.cls("file-named-" + fname)
        path = os.path.join(d, fname)
        if spec.get("symlink") and not spec.get("relative"):
            # the module is imported through a path that goes up from a symlinked directory ("current -> releases/v2", "current/../shared/mod.py"):
            # collapsing "link/.." textually would name another file
            real = os.path.join(d, "releases", "v%d" % vi)
            os.makedirs(os.path.join(real, "sub"), exist_ok=True)
            link = os.path.join(d, "current%d" % vi)
            if not os.path.exists(link):
                os.symlink(os.path.join(real, "sub"), link)
            with open(os.path.join(d, fname), "w", encoding="utf-8") as decoy:
                decoy.write("# another file with the same name\n" * 40)
            target = os.path.join(real, fname)
            path = os.path.join(link, "..", fname)
            ctx.cls("path-through-symlink")
        if True:
            with open(path, "w", encoding=enc) as f:
                f.write(text)
            linecache.checkcache(path)
            relative = bool(spec.get("relative"))
            if relative:
                # the code object carries a relative file name (compile(src, "tool.py"), runpy): it is relative to where the program started, not to where it is now
                import rich

                code_name = os.path.relpath(path, rich._IMPORT_CWD)
                shown_path = os.path.join(rich._IMPORT_CWD, code_name)
                glob = {}
                exec(compile(text, code_name, "exec"), glob)
                f0 = glob["f0"]
            else:
                code_name = shown_path = path
                import importlib.machinery

                specm = importlib.util.spec_from_file_location("vp_c17_genmod_%d" % vi, path, loader=importlib.machinery.SourceFileLoader("vp_c17_genmod_%d" % vi, path))
                mod = importlib.util.module_from_spec(specm)
                specm.loader.exec_module(mod)
                f0 = mod.f0
            try:
                f0(1)
            except ValueError:
                et, ev, tb = sys.exc_info()
            else:
                raise AssertionError("generated module did not raise")
            frames = []
            t = tb
            while t is not None:
                if t.tb_frame.f_code.co_filename == code_name:
                    frames.append((t.tb_lineno, t.tb_frame.f_code.co_name))
                t = t.tb_next
            old_cwd = os.getcwd()
            if relative:
                os.chdir(d)   # the program changed directory after it started
            try:
                trace = sut(Traceback.from_exception, et, ev, tb, width=120)
            finally:
                os.chdir(old_cwd)
            f = io.StringIO()
            con = sut(Console, file=f, width=120, color_system=None, legacy_windows=False, _environ={})
            sut(con.print, trace)
            out = f.getvalue()
            src_lines = text.split("\n")
            blocks = re.split(r"(?m)^│ (?=\S+:\d+ in )", out)
            for lineno, name in frames:
                header = "%s:%d in %s" % (shown_path, lineno, name)
                blk = [b for b in blocks if b.startswith(header)]
                if not blk:
                    ctx.violation("traceback", "C17/traceback/no-frame", "no frame header %r in\n%s" % (header, out))
                    return False
                m = re.search(r"(?m)^│ ❱ +(\d+) (.*?) *│$", blk[0])
                want_text = src_lines[lineno - 1].expandtabs(4).rstrip()
                if not m:
                    ctx.violation("traceback", "C17/traceback/no-marked-line", "frame %s has no line marked as failing (source line %d is %r)\n%s" % (header, lineno, want_text, out))
                    return False
                shown = m.group(2)
                mm = re.match(r"^[ %s]*" % GUIDE, shown)
                shown = (shown[:mm.end()].replace(GUIDE, " ") + shown[mm.end():]).rstrip()
                if int(m.group(1)) != lineno or shown != want_text:
                    ctx.violation("traceback", "C17/traceback/%s" % ("stale-source" if vi else "wrong-line"), "frame %s marks line %s %r, the failing source line is %d %r\n%s" % (header, m.group(1), shown, lineno, want_text, out))
                    return False
        return True


def pad_line(kind, n):
    """A module-level line that is different at every line number n (so that a row under a wrong number cannot pass for the right one)."""
    if kind == "comment":
        return "# note %d" % n
    if kind == "mixed":
        return ["value_%d = %d" % (n, n), "", "# note %d" % n, "value_%d = (%d, 'v%d')" % (n, n, n), "    " if n % 8 == 3 else "value_%d = [%d]" % (n, n)][n % 5]
    if kind == "strings":
        # triple-quoted blocks: lines whose highlighting depends on the lines far above them
        return ['text_%d = """' % n, "  inside %d" % n, "  more %d" % n, '""" # end %d' % n][n % 4]
    return "value_%d = %d" % (n, n)


class LongFileTracebacks(Part):
    name = "traceback-long"
    rule = ("generated modules of 2 to ~20000 lines: 0-3 leading blank lines, then padding (assignments / comments / a mix with blank lines / triple-quoted blocks, every line "
            "different from its neighbours), a function f0 calling f1, more padding, f1 raising, padding below; the amounts of padding are drawn around the powers of ten "
            "(where the number column widens) and up to 13000 lines, so the failing lines lie anywhere from line 2 to beyond line 10000; with/without final newline x "
            "extra_lines {0, 1, 3, 10, 50} x word_wrap x width {100, 120, 160}; Traceback.from_exception (from the module's first frame on) rendered: for each of the module's two frames EVERY numbered row of the "
            "frame is compared - the numbers are exactly lineno-extra_lines..lineno+extra_lines clipped to the lines that exist (blank lines at the very end of the file "
            "optional), in order, each row shows the text of the file's line of that number, and exactly the row numbered frame.lineno carries the failing-line marker; "
            "non-trivial = a failing line beyond line 1000 or a window clipped by the start or end of the file")
    budget = {"quick": (16, 6), "thorough": (16, 120)}
    chunk = 6

    def strategy(self, tier):
        amount = st.one_of(st.sampled_from([0, 1, 4, 6, 86, 94, 96, 986, 994, 996, 1990, 2000, 2010]), st.integers(0, 300), st.integers(300, 4000), st.one_of(st.sampled_from([9986, 9994]), st.integers(4000, 13000)))
        return st.builds(lambda lead, above, between, below, kind, nl, extra, wrap, width, inner: {"lead": lead, "above": above, "between": between, "below": below, "kind": kind, "final_newline": nl,
                                                                                                 "extra_lines": extra, "word_wrap": wrap, "width": width, "inner": inner},
                         st.sampled_from([0, 0, 1, 3]), amount, st.one_of(st.sampled_from([0, 0, 1, 7]), st.integers(0, 300), amount), st.sampled_from([0, 0, 0, 1, 2, 5, 40, 3000]),
                         st.sampled_from(["assign", "comment", "mixed", "strings"]), st.booleans(), st.sampled_from([3, 3, 0, 1, 10, 50]), st.booleans(), st.sampled_from([120, 100, 160]),
                         st.integers(0, 4))

    def check(self, spec, ctx):
        from rich.console import Console
        from rich.traceback import Traceback
        import importlib.machinery

        lines = [""] * spec["lead"]

        def pad(count):
            if spec["kind"] == "strings":
                count -= count % 4   # whole blocks only
                while len(lines) % 4 != 3 and count:
                    lines.append("# align %d" % (len(lines) + 1))
            for _ in range(count):
                lines.append(pad_line(spec["kind"], len(lines) + 1))

        pad(spec["above"])
        lines.append("def f0(v):")
        lines.extend("    v = v + %d  # f0 step at %d" % (k, len(lines) + 1 + k) for k in range(spec["inner"]))
        lines.append("    return f1(v)")
        pad(spec["between"])
        lines.append("def f1(v):")
        lines.extend("    v = v - %d  # f1 step at %d" % (k, len(lines) + 1 + k) for k in range(spec["inner"]))
        lines.append("    raise ValueError('boom')")
        pad(spec["below"])
        text = "\n".join(lines) + ("\n" if spec["final_newline"] else "")
        d = tempfile.mkdtemp(prefix="vp_c17l_")
        try:
            path = os.path.join(d, "longmod.py")
            with open(path, "w", encoding="utf-8") as f:
                f.write(text)
            linecache.checkcache(path)
            specm = importlib.util.spec_from_file_location("vp_c17_longmod", path, loader=importlib.machinery.SourceFileLoader("vp_c17_longmod", path))
            mod = importlib.util.module_from_spec(specm)
            specm.loader.exec_module(mod)
            try:
                mod.f0(1)
            except ValueError:
                et, ev, tb = sys.exc_info()
            else:
                raise AssertionError("generated module did not raise")
            frames = []
            t = tb
            while t is not None:
                if t.tb_frame.f_code.co_filename == path:
                    frames.append((t.tb_lineno, t.tb_frame.f_code.co_name))
                t = t.tb_next
            assert [n for _, n in frames] == ["f0", "f1"], frames
            extra = spec["extra_lines"]
            # the traceback from the module's first frame on (tb itself is this check function's frame)
            trace = sut(Traceback.from_exception, et, ev, tb.tb_next, width=spec["width"], extra_lines=extra, word_wrap=spec["word_wrap"])
            del tb, t
            f = io.StringIO()
            con = sut(Console, file=f, width=spec["width"], color_system=None, legacy_windows=False, _environ={})
            sut(con.print, trace)
            out = f.getvalue()
            total = len(lines)
            last_nonblank = max(i + 1 for i, l in enumerate(lines) if l.strip())
            blocks = re.split(r"(?m)^│ (?=\S+:\d+ in )", out)
            desc = "module of %d lines (%d leading blank, %s padding, final newline %r), Traceback(extra_lines=%d, word_wrap=%r) at width %d" % (
                total, spec["lead"], spec["kind"], spec["final_newline"], extra, spec["word_wrap"], spec["width"])
            for lineno, name in frames:
                header = "%s:%d in %s" % (path, lineno, name)
                blk = [b for b in blocks if b.startswith(header)]
                if not blk:
                    ctx.violation("traceback", "C17/traceback/no-frame", "%s: no frame header %r in\n%s" % (desc, header, out[-3000:]))
                    return
                rows = []
                for row in blk[0].split("\n")[1:]:
                    m = re.match(r"^│ (❱| ) +(\d+) (.*?) *│$", row)
                    if m:
                        shown = m.group(3)
                        mm = re.match(r"^[ %s]*" % GUIDE, shown)
                        rows.append((int(m.group(2)), m.group(1), (shown[:mm.end()].replace(GUIDE, " ") + shown[mm.end():]).rstrip()))
                want = list(range(max(1, lineno - extra), min(total, lineno + extra) + 1))
                must = [n for n in want if n <= last_nonblank]
                got = [n for n, _, _ in rows]
                if got != want[:len(got)] or len(got) < len(must):
                    ctx.violation("traceback", "C17/traceback/long-window", "%s: frame %s:%d shows the lines numbered %r, expected %r (blank lines at the end of the file optional)\n%s" % (
                        desc, name, lineno, got, want, blk[0]))
                    return
                marked = [n for n, mk, _ in rows if mk == "❱"]
                if marked != [lineno]:
                    ctx.violation("traceback", "C17/traceback/long-marker", "%s: frame %s:%d marks the rows %r as failing\n%s" % (desc, name, lineno, marked, blk[0]))
                    return
                bad = [(n, shown, lines[n - 1].rstrip()) for n, _, shown in rows if shown != lines[n - 1].rstrip()]
                if bad:
                    at = "failing-line" if any(n == lineno for n, _, _ in bad) else "context-line"
                    ctx.violation("traceback", "C17/traceback/long-%s" % at, "%s: frame %s:%d: row numbered %d shows %r, line %d of the file is %r\n%s" % (
                        desc, name, lineno, bad[0][0], bad[0][1], bad[0][0], bad[0][2], blk[0]))
                    return
                if lineno > 1000:
                    ctx.nontrivial = True
                    ctx.cls("failing-line-beyond-%d" % (10000 if lineno > 10000 else 2000 if lineno > 2000 else 1000))
                if len(want) < 2 * extra + 1:
                    ctx.nontrivial = True
                    ctx.cls("window-clipped-by-file")
            ctx.cls("padding-" + spec["kind"])
        finally:
            shutil.rmtree(d, ignore_errors=True)
            linecache.clearcache()


PARTS = [SyntaxLines(), Tracebacks(), LongFileTracebacks()]
