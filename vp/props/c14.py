"""C14 - no input makes the pipeline fail with an undocumented error."""
import io
import itertools
import time
from hypothesis import strategies as st

from ..core import Part, sut, Ctx, SutError, bucket_of
from ..gen import trees as GT

PROP_ID = "C14"
LEVEL = "exploration"
RULE = "exhaustive token-alphabet strings per entry point + Hypothesis random Unicode + generated renderable trees over the whole valid option space at widths 1..200 (+ atheris bytes in the thorough tier)"
ASSUMPTIONS = [
    "documented outcomes: Color.parse -> value | ColorParseError; Style.parse -> value | StyleSyntaxError; markup.render / Text.from_markup -> value | MarkupError; "
    "Console.get_style -> value | MissingStyle; AnsiDecoder.decode, Text(s) (+ printing it), Console.print(s, markup=False) -> no exception",
    "valid options for trees: documented types and ranges (paddings >= 0, widths >= 1, ratio >= 1, leading >= 0, columns added before rows); __rich__ casts are one level deep",
    "non-termination is detected without a timer: a counting Console caps render() invocations per case",
    "strings are surrogate-free",
]

ALPHABETS = {
    "color": ["rgb", "(", ")", ",", "1", "255", "256", "#", "ff", "color", "²", "٣", "４", "-", "+", ".", " ", "rgb(", ",,", "0x", "#ff0000", "red"],
    "style": ["bold", "not", "on", "link", "red", "#ff0000", "rgb(1,2,3)", "color(5)", "default", "none", "b", "uu", "(", "²", "x", "rgb(,,)", "color(300)", "rgb(1,2)"],
    "markup": ["[", "]", "\\", "/", "=", "bold", "red", "#", ":smile:", "link", " ", "\n", "[/]", "[rgb(,,)]", "[/bold]"],
    "ansi": ["\x1b", "[", "]", "m", ";", "0", "1", "38", "48", "5", "2", "255", "999", "²", "٣", "8;", "\\", "\x07", "\r", "\n", "id=1", "http://x", "\x1b[", "\x1b]8;;",
             "\x1b]8;", "\x1b\\", "\x1b]"],
}
# strings that are too long for the token product but matter (Python refuses int() of more than 4300 digits)
SPECIALS = {
    "color": ["rgb(" + "9" * 4400 + ",1,1)", "color(" + "9" * 4400 + ")", "#" + "f" * 4400],
    "style": ["on rgb(" + "9" * 4400 + ",1,1)", "bold " * 3000, "link " + "x" * 10000],
    "markup": ["[" * 3000, "[rgb(" + "9" * 4400 + ",1,1)]x", "\\" * 4001 + "[b]"],
    "ansi": ["\x1b[" + "9" * 4400 + "m", "\x1b[38;5;" + "9" * 4400 + "mx", "\x1b[38;2;" + "1" * 4400 + ";2;3mx", "\x1b]8;" + "9" * 4400 + "\x1b\\", "\x1b[" + ";" * 5000 + "m"],
}
ENTRY = {
    "color": ["Color.parse"],
    "style": ["Style.parse", "get_style", "Style.normalize"],
    "markup": ["markup.render", "Text.from_markup", "print-markup"],
    "ansi": ["AnsiDecoder", "Text", "print-plain"],
}


class Env:
    _inst = None

    @classmethod
    def get(cls):
        if cls._inst is None:
            from rich.console import Console

            e = cls()
            e.con = Console(file=io.StringIO(), width=80, color_system="truecolor", force_terminal=True, legacy_windows=False, _environ={})
            cls._inst = e
        return cls._inst


def run_entry(entry, s):
    """Returns ('ok'|'documented', detail) or raises SutError for an undocumented exception."""
    from rich.color import Color, ColorParseError
    from rich.style import Style
    from rich.errors import StyleSyntaxError, MarkupError, MissingStyle
    from rich import markup
    from rich.text import Text
    from rich.ansi import AnsiDecoder

    env = Env.get()
    con = env.con
    con.file.seek(0)
    con.file.truncate(0)
    try:
        if entry == "Color.parse":
            allowed = ColorParseError
            Color.parse(s)
        elif entry == "Style.parse":
            allowed = StyleSyntaxError
            Style.parse(s)
        elif entry == "Style.normalize":
            allowed = ()
            Style.normalize(s)
        elif entry == "get_style":
            allowed = MissingStyle
            con.get_style(s)
        elif entry == "markup.render":
            allowed = MarkupError
            markup.render(s)
        elif entry == "Text.from_markup":
            allowed = MarkupError
            t = Text.from_markup(s)
            con.print(t)  # non-style tag names must not break printing
        elif entry == "print-markup":
            allowed = MarkupError
            con.print(s)
        elif entry == "AnsiDecoder":
            allowed = ()
            for line in AnsiDecoder().decode(s):
                line.plain
        elif entry == "Text":
            allowed = ()
            t = Text(s)
            con.print(t)
            len(t)
            t.wrap(con, 7)
        elif entry == "print-plain":
            allowed = ()
            con.print(s, markup=False)
        else:
            raise AssertionError(entry)
    except MemoryError:
        raise
    except Exception as e:  # noqa
        if allowed and isinstance(e, allowed):
            return "documented", str(e)
        raise SutError(e)
    return "ok", ""


class Tokens(Part):
    name = "tokens"
    custom = True
    exhaustive = True
    rule = ("every string of <= 3 (quick) / 4 (thorough) tokens from a per-entry-point alphabet of syntax-significant fragments, joined with '' and with ' ', "
            "fed to Color.parse / Style.parse / Style.normalize / get_style / markup.render / Text.from_markup+print / print / AnsiDecoder / Text / "
            "print(markup=False); non-trivial (distinct by construction) = accepted, or rejected with a documented error raised past the first syntactic check")
    budget = {"quick": (16, 1), "thorough": (16, 1)}

    def run_shard(self, tier, shard, nshards, seed, stats, deadline, known):
        L = 3 if tier == "quick" else 4
        n = 0
        nt = 0
        found = {}
        for family, alpha in ALPHABETS.items():
            firsts = [t for i, t in enumerate(alpha) if i % nshards == shard]
            for length in range(1, L + 1):
                for first in firsts:
                    for rest in itertools.product(alpha, repeat=length - 1):
                        toks = (first,) + rest
                        for sep in ("", " "):
                            if sep == " " and length == 1:
                                continue
                            s = sep.join(toks)
                            for entry in ENTRY[family]:
                                n += 1
                                try:
                                    kind, detail = run_entry(entry, s)
                                except SutError as e:
                                    sig = "C14/exc/%s/%s" % (entry, e.bucket)
                                    if sig not in found or len(s) < len(found[sig][0]):
                                        found[sig] = (s, entry, repr(e.exc))
                                    continue
                                if kind == "ok" or ("not a valid color" not in detail and "unable to parse" not in detail):
                                    nt += 1
                if time.time() > deadline:
                    stats.capped = True
                    break
        if shard == 0:
            for family in ALPHABETS:
                for entry in ENTRY[family]:
                    for sp in [""] + SPECIALS[family]:
                        n += 1
                        try:
                            run_entry(entry, sp)
                        except SutError as e:
                            found.setdefault("C14/exc/%s/%s" % (entry, e.bucket), (sp, entry, repr(e.exc)[:300]))
        stats.evaluations += n
        stats.nontrivial_count_distinct += nt
        if not stats.capped:
            stats.done += 1
        stats.samples.append((1, {"shard": shard, "max_tokens": L, "example": ["Color.parse", "rgb(" + "1" + ","]}, "range"))
        for sig, (s, entry, detail) in found.items():
            if known.match(sig):
                stats.excluded_known[known.match(sig)["id"]] = stats.excluded_known.get(known.match(sig)["id"], 0) + 1
                continue
            stats.found[sig] = {"spec": {"entry": entry, "s": s}, "clause": "undocumented-exception", "detail": "%s(%r) raised %s" % (entry, s[:200], detail), "size": len(s), "part": self.name}

    def replay(self, spec, ctx):
        try:
            run_entry(spec["entry"], spec["s"])
        except SutError as e:
            ctx.violation("undocumented-exception", "C14/exc/%s/%s" % (spec["entry"], e.bucket), "%s(%r) raised %r" % (spec["entry"], spec["s"], e.exc))


class Unicode(Part):
    name = "unicode"
    rule = ("Hypothesis text over all surrogate-free code points (astral, controls, non-ASCII digits) mixed with syntax fragments, fed to all ten entry "
            "points; non-trivial = contains a non-ASCII digit, an astral character, ESC or a C0/C1 control next to syntax characters")
    budget = {"quick": (4, 1500), "thorough": (16, 20000)}

    def strategy(self, tier):
        anychar = st.characters(blacklist_categories=("Cs",))
        frag = st.sampled_from(sum(ALPHABETS.values(), []))
        digits = st.sampled_from(list("²³¹٠١٢٣４５६७৪໒"))
        piece = st.one_of(anychar, anychar, frag, frag, digits, st.sampled_from(["\x1b[", "\x1b]8;;", "rgb(", "color(", "[", "]", "\x00", "\x7f", "\x85", " ", "\U0001F600", "\U000E01EF", "\U0010FFFF", "\U000F0000"]))
        return st.builds(lambda parts, entry: {"s": "".join(parts), "entry": entry}, st.lists(piece, max_size=12), st.sampled_from(sum(ENTRY.values(), [])))

    def check(self, spec, ctx):
        s = spec["s"]
        try:
            run_entry(spec["entry"], s)
        except SutError as e:
            ctx.violation("undocumented-exception", "C14/exc/%s/%s" % (spec["entry"], e.bucket), "%s(%r) raised %r" % (spec["entry"], s, e.exc))
            return
        ctx.cls(spec["entry"])
        if any((c.isdigit() and not c.isascii()) or ord(c) > 0xFFFF or c == "\x1b" or ord(c) < 32 for c in s):
            ctx.nontrivial = True


class NonTermination(Exception):
    pass


def counting_console(W, limit=200000):
    from rich.console import Console

    class Counting(Console):
        calls = 0

        def render(self, renderable, options=None):
            self.calls += 1
            if self.calls > limit:
                raise NonTermination("more than %d render() invocations" % limit)
            return super().render(renderable, options)

    return Counting(file=io.StringIO(), width=W, height=25, color_system="truecolor", force_terminal=True, legacy_windows=False, _environ={})


def syntax_leaf():
    code = st.lists(st.sampled_from(["x = 1", "", "def f():", "    return 2", "\tif a:", "# 漢字", "print('[bold]')"]), max_size=6).map("\n".join)
    return st.builds(lambda c, ln, lr, ww, nl: {"k": "syntax", "code": c + ("\n" if nl else ""), "line_numbers": ln, "line_range": lr, "word_wrap": ww},
                     code, st.booleans(), st.one_of(st.none(), st.tuples(st.integers(1, 9), st.integers(1, 12)).map(lambda t: [min(t), max(t)])), st.booleans(), st.booleans())


class Trees(Part):
    name = "trees"
    rule = ("trees as C01 but with the whole valid option space (column width/min_width/no_wrap, table width/min_width, overflow='ignore', "
            "Panel/Align/Constrain/Columns/Bar widths, Syntax leaves with line ranges beyond the code) x W in 1..200: render(), print() and "
            "Measurement.get() return; non-trivial = W below the structural minimum or an explicit width option present")
    budget = {"quick": (16, 150), "thorough": (16, 6000)}
    chunk = 150

    def strategy(self, tier):
        w = st.one_of(st.integers(1, 6), st.integers(1, 30), st.integers(1, 200))
        wrap = st.one_of(GT.node(0, "any"), GT.node(0, "any"), st.builds(lambda s, p: {"k": "panel", "child": s, "box": "ROUNDED", "title": None, "title_align": "center", "expand": True, "padding": [0, 1], "width": None} if p else s, syntax_leaf(), st.booleans()))
        return st.builds(lambda t, w: {"tree": t, "W": w}, wrap, w)

    def check(self, spec, ctx):
        from rich.measure import Measurement

        tree = spec["tree"]
        W = spec["W"]

        def build(n):
            if n["k"] == "syntax":
                from rich.syntax import Syntax

                return Syntax(n["code"], "python", line_numbers=n["line_numbers"], line_range=tuple(n["line_range"]) if n["line_range"] else None, word_wrap=n["word_wrap"])
            if n["k"] == "panel" and n["child"]["k"] == "syntax":
                from rich.panel import Panel

                return Panel(build(n["child"]))
            return GT.build(n)

        has_syntax = tree["k"] == "syntax" or (tree["k"] == "panel" and tree["child"]["k"] == "syntax")
        smin = 1 if has_syntax else GT.struct_min(tree)
        for what in ("render", "measure", "print"):
            con = counting_console(W)
            try:
                r = build(tree)
                if what == "render":
                    list(con.render(r, con.options))
                elif what == "measure":
                    Measurement.get(con, r, W)
                    Measurement.get(con, r)
                else:
                    con.print(r)
            except MemoryError:
                raise
            except NonTermination as e:
                ctx.violation("termination", "C14/termination/%s" % tree["k"], "%s at W=%d: %s; tree=%r" % (what, W, e, tree))
                return
            except Exception as e:  # noqa
                ctx.violation("undocumented-exception", "C14/tree/%s" % bucket_of(e), "%s at W=%d raised %r; tree=%r" % (what, W, e, tree))
                return
        explicit = "'width': " in repr(tree) and any(("'width': %d" % k) in repr(tree) for k in range(1, 81))
        if W < smin or explicit:
            ctx.nontrivial = True
        if W < smin:
            ctx.cls("below-structural-minimum")
        if has_syntax:
            ctx.cls("syntax")


class Fuzz(Part):
    """Coverage-guided campaign (atheris / libFuzzer) over the string parsers; thorough tier only."""

    name = "atheris"
    custom = True
    rule = ("atheris (libFuzzer) coverage-guided bytes -> (entry selector, UTF-8 text) over the ten entry points with rich instrumented; corpus = empty + "
            "token alphabets; parser caches cleared every 10k iterations; skipped (reported) when atheris is not importable")
    budget = {"quick": (0, 0), "thorough": (8, 1)}

    def run_shard(self, tier, shard, nshards, seed, stats, deadline, known):
        import os
        import subprocess
        import sys
        import tempfile
        import json

        here = os.path.dirname(os.path.dirname(os.path.abspath(__file__)))
        corpus = tempfile.mkdtemp(prefix="vp_c14_corpus_")
        crashes = tempfile.mkdtemp(prefix="vp_c14_crash_")
        try:
            if shard % 2 == 1:  # odd shards start from the token corpus, even shards from an empty one
                entries = sum(ENTRY.values(), [])
                k = 0
                for fam, alpha in ALPHABETS.items():
                    for t in alpha:
                        for ei, e in enumerate(entries):
                            if e in ENTRY[fam]:
                                with open(os.path.join(corpus, "t%d" % k), "wb") as f:
                                    f.write(bytes([ei]) + t.encode("utf-8", "surrogatepass"))
                                k += 1
            runs = 400000
            cmd = [sys.executable, "-B", "-m", "vp.fuzz_c14", corpus, "-runs=%d" % runs, "-seed=%d" % (seed * 100 + shard + 1), "-max_len=64", "-artifact_prefix=" + crashes + "/", "-print_final_stats=1"]
            env = dict(os.environ, PYTHONPATH=here + os.pathsep + os.path.join(here, ".deps"))
            budget = max(30, min(600, deadline - time.time() - 60))
            try:
                p = subprocess.run(cmd, cwd=here, env=env, stdout=subprocess.PIPE, stderr=subprocess.STDOUT, text=True, timeout=budget)
                out = p.stdout
            except subprocess.TimeoutExpired as e:
                out = (e.stdout or b"").decode("utf-8", "replace") if isinstance(e.stdout, bytes) else (e.stdout or "")
                stats.extra["atheris_timeouts"] = 1
            if "ATHERIS-UNAVAILABLE" in out:
                stats.extra["atheris_unavailable"] = 1
                stats.done += 1
                return
            execs = 0
            for line in out.splitlines():
                if "stat::number_of_executed_units" in line:
                    execs = int(line.split()[-1])
            stats.evaluations += execs
            stats.extra["atheris_execs"] = execs
            for name in os.listdir(crashes):
                data = open(os.path.join(crashes, name), "rb").read()
                if not data:
                    continue
                entries = sum(ENTRY.values(), [])
                entry = entries[data[0] % len(entries)]
                s = data[1:].decode("utf-8", "replace")
                try:
                    run_entry(entry, s)
                except SutError as e:
                    sig = "C14/exc/%s/%s" % (entry, e.bucket)
                    if known.match(sig):
                        continue
                    stats.found[sig] = {"spec": {"entry": entry, "s": s}, "clause": "undocumented-exception", "detail": "%s(%r) raised %r (found by atheris)" % (entry, s, e.exc), "size": len(s), "part": "tokens"}
            stats.samples.append((1, {"shard": shard, "corpus": "tokens" if shard % 2 else "empty", "executions": execs}, "fuzz"))
            stats.nontrivial_count_distinct += 0
            stats.done += 1
        finally:
            import shutil

            shutil.rmtree(corpus, ignore_errors=True)
            shutil.rmtree(crashes, ignore_errors=True)


PARTS = [Tokens(), Unicode(), Trees(), Fuzz()]
