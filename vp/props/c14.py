"""C14 - no input makes the pipeline fail with an undocumented error."""
import io
import itertools
import time
from hypothesis import strategies as st

from ..core import Part, sut, Ctx, SutError, bucket_of
from ..gen import trees as GT

PROP_ID = "C14"
LEVEL = "exploration"
RULE = "exhaustive token-alphabet strings per entry point + Hypothesis random Unicode + generated renderable trees over the whole valid option space at widths 1..200 (+ atheris bytes in the thorough tier)"
ASSUMPTIONS = [
    "documented outcomes: Color.parse -> value | ColorParseError; Style.parse -> value | StyleSyntaxError; markup.render / Text.from_markup -> value | MarkupError; "
    "Console.get_style -> value | MissingStyle; AnsiDecoder.decode, Text(s) (+ printing it), Console.print(s, markup=False) -> no exception",
    "valid options for trees: documented types and ranges (paddings >= 0, widths >= 1, ratio >= 0, leading >= 0, columns added before rows; a table may have no columns); __rich__ casts are one level deep",
    "non-termination is detected without a timer: a counting Console caps render() invocations per case",
    "strings are surrogate-free",
]

ALPHABETS = {
    "color": ["rgb", "(", ")", ",", "1", "255", "256", "#", "ff", "color", "²", "٣", "４", "-", "+", ".", " ", "rgb(", ",,", "0x", "#ff0000", "red"],
    "style": ["bold", "not", "on", "link", "red", "#ff0000", "rgb(1,2,3)", "color(5)", "default", "none", "b", "uu", "(", "²", "x", "rgb(,,)", "color(300)", "rgb(1,2)"],
    "markup": ["[", "]", "\\", "/", "=", "bold", "red", "#", ":smile:", "link", " ", "\n", "[/]", "[rgb(,,)]", "[/bold]"],
    "ansi": ["\x1b", "[", "]", "m", ";", "0", "1", "38", "48", "5", "2", "255", "999", "²", "٣", "8;", "\\", "\x07", "\r", "\n", "id=1", "http://x", "\x1b[", "\x1b]8;;",
             "\x1b]8;", "\x1b\\", "\x1b]"],
}
# strings that are too long for the token product but matter (Python refuses int() of more than 4300 digits)
SPECIALS = {
    "color": ["rgb(" + "9" * 4400 + ",1,1)", "color(" + "9" * 4400 + ")", "#" + "f" * 4400],
    "style": ["on rgb(" + "9" * 4400 + ",1,1)", "bold " * 3000, "link " + "x" * 10000],
    "markup": ["[" * 3000, "[rgb(" + "9" * 4400 + ",1,1)]x", "\\" * 4001 + "[b]"],
    "ansi": ["\x1b[" + "9" * 4400 + "m", "\x1b[38;5;" + "9" * 4400 + "mx", "\x1b[38;2;" + "1" * 4400 + ";2;3mx", "\x1b]8;" + "9" * 4400 + "\x1b\\", "\x1b[" + ";" * 5000 + "m"],
}
ENTRY = {
    "color": ["Color.parse"],
    "style": ["Style.parse", "get_style", "Style.normalize"],
    "markup": ["markup.render", "Text.from_markup", "print-markup"],
    "ansi": ["AnsiDecoder", "Text", "print-plain"],
}


class Env:
    _inst = None

    @classmethod
    def get(cls):
        if cls._inst is None:
            from rich.console import Console

            e = cls()
            e.con = Console(file=io.StringIO(), width=80, color_system="truecolor", force_terminal=True, legacy_windows=False, _environ={})
            cls._inst = e
        return cls._inst


def run_entry(entry, s):
    """Returns ('ok'|'documented', detail) or raises SutError for an undocumented exception."""
    from rich.color import Color, ColorParseError
    from rich.style import Style
    from rich.errors import StyleSyntaxError, MarkupError, MissingStyle
    from rich import markup
    from rich.text import Text
    from rich.ansi import AnsiDecoder

    env = Env.get()
    con = env.con
    con.file.seek(0)
    con.file.truncate(0)
    try:
        if entry == "Color.parse":
            allowed = ColorParseError
            Color.parse(s)
        elif entry == "Style.parse":
            allowed = StyleSyntaxError
            Style.parse(s)
        elif entry == "Style.normalize":
            allowed = ()
            Style.normalize(s)
        elif entry == "get_style":
            allowed = MissingStyle
            con.get_style(s)
        elif entry == "markup.render":
            allowed = MarkupError
            markup.render(s)
        elif entry == "Text.from_markup":
            allowed = MarkupError
            t = Text.from_markup(s)
            con.print(t)  # non-style tag names must not break printing
        elif entry == "print-markup":
            allowed = MarkupError
            con.print(s)
        elif entry == "AnsiDecoder":
            allowed = ()
            for line in AnsiDecoder().decode(s):
                line.plain
        elif entry == "Text":
            allowed = ()
            t = Text(s)
            con.print(t)
            len(t)
            t.wrap(con, 7)
        elif entry == "print-plain":
            allowed = ()
            con.print(s, markup=False)
        else:
            raise AssertionError(entry)
    except MemoryError:
        raise
    except Exception as e:  # noqa
        if allowed and isinstance(e, allowed):
            return "documented", str(e)
        raise SutError(e)
    return "ok", ""


class Tokens(Part):
    name = "tokens"
    custom = True
    exhaustive = True
    rule = ("every string of <= 3 (quick) / 4 (thorough) tokens from a per-entry-point alphabet of syntax-significant fragments, joined with '' and with ' ', "
            "fed to Color.parse / Style.parse / Style.normalize / get_style / markup.render / Text.from_markup+print / print / AnsiDecoder / Text / "
            "print(markup=False); non-trivial (distinct by construction) = accepted, or rejected with a documented error raised past the first syntactic check")
    budget = {"quick": (16, 1), "thorough": (16, 1)}

    def run_shard(self, tier, shard, nshards, seed, stats, deadline, known):
        L = 3 if tier == "quick" else 4
        n = 0
        nt = 0
        found = {}
        for family, alpha in ALPHABETS.items():
            firsts = [t for i, t in enumerate(alpha) if i % nshards == shard]
            for length in range(1, L + 1):
                for first in firsts:
                    for rest in itertools.product(alpha, repeat=length - 1):
                        toks = (first,) + rest
                        for sep in ("", " "):
                            if sep == " " and length == 1:
                                continue
                            s = sep.join(toks)
                            for entry in ENTRY[family]:
                                n += 1
                                try:
                                    kind, detail = run_entry(entry, s)
                                except SutError as e:
                                    sig = "C14/exc/%s/%s" % (entry, e.bucket)
                                    if sig not in found or len(s) < len(found[sig][0]):
                                        found[sig] = (s, entry, repr(e.exc))
                                    continue
                                if kind == "ok" or ("not a valid color" not in detail and "unable to parse" not in detail):
                                    nt += 1
                if time.time() > deadline:
                    stats.capped = True
                    break
        if shard == 0:
            for family in ALPHABETS:
                for entry in ENTRY[family]:
                    for sp in [""] + SPECIALS[family]:
                        n += 1
                        try:
                            run_entry(entry, sp)
                        except SutError as e:
                            found.setdefault("C14/exc/%s/%s" % (entry, e.bucket), (sp, entry, repr(e.exc)[:300]))
        stats.evaluations += n
        stats.nontrivial_count_distinct += nt
        if not stats.capped:
            stats.done += 1
        stats.samples.append((1, {"shard": shard, "max_tokens": L, "example": ["Color.parse", "rgb(" + "1" + ","]}, "range"))
        for sig, (s, entry, detail) in found.items():
            if known.match(sig):
                stats.excluded_known[known.match(sig)["id"]] = stats.excluded_known.get(known.match(sig)["id"], 0) + 1
                continue
            stats.found[sig] = {"spec": {"entry": entry, "s": s}, "clause": "undocumented-exception", "detail": "%s(%r) raised %s" % (entry, s[:200], detail), "size": len(s), "part": self.name}

    def replay(self, spec, ctx):
        try:
            run_entry(spec["entry"], spec["s"])
        except SutError as e:
            ctx.violation("undocumented-exception", "C14/exc/%s/%s" % (spec["entry"], e.bucket), "%s(%r) raised %r" % (spec["entry"], spec["s"], e.exc))


class Unicode(Part):
    name = "unicode"
    rule = ("Hypothesis text over all surrogate-free code points (astral, controls, non-ASCII digits) mixed with syntax fragments, fed to all ten entry "
            "points; non-trivial = contains a non-ASCII digit, an astral character, ESC or a C0/C1 control next to syntax characters")
    budget = {"quick": (4, 1500), "thorough": (16, 20000)}

    def strategy(self, tier):
        anychar = st.characters(blacklist_categories=("Cs",))
        frag = st.sampled_from(sum(ALPHABETS.values(), []))
        digits = st.sampled_from(list("²³¹٠١٢٣４５६७৪໒"))
        piece = st.one_of(anychar, anychar, frag, frag, digits, st.sampled_from(["\x1b[", "\x1b]8;;", "rgb(", "color(", "[", "]", "\x00", "\x7f", "\x85", " ", "\U0001F600", "\U000E01EF", "\U0010FFFF", "\U000F0000"]))
        return st.builds(lambda parts, entry: {"s": "".join(parts), "entry": entry}, st.lists(piece, max_size=12), st.sampled_from(sum(ENTRY.values(), [])))

    def check(self, spec, ctx):
        s = spec["s"]
        try:
            run_entry(spec["entry"], s)
        except SutError as e:
            ctx.violation("undocumented-exception", "C14/exc/%s/%s" % (spec["entry"], e.bucket), "%s(%r) raised %r" % (spec["entry"], s, e.exc))
            return
        ctx.cls(spec["entry"])
        if any((c.isdigit() and not c.isascii()) or ord(c) > 0xFFFF or c == "\x1b" or ord(c) < 32 for c in s):
            ctx.nontrivial = True


HIGHLIGHT_FRAGMENTS = [
    "c0ffee00-a1b2-4c3d-8e9f-0123456789ab", "123e4567-e89b-12d3-a456-426614174000", "192.168.0.1", "::1", "2001:db8::ff00:42:8329", "00:1B:44:11:3A:B7", "0123.4567.89ab.cdef",
    "https://example.org/a?b=1&c=2", "/usr/local/lib/python3/site.py", "C:\\dir\\file.txt", "file.py:12", "foo(bar=1)", "<Tag attr=\"v\" other='w'>", "...", "True", "False", "None",
    "3.14e-10", "0x1F", "1_000", "-5", "'single'", "\"double\"", "b'bytes'", "key=value", "[1, 2, 3]", "{'a': 1}", "(x, y)", "word", "another", "漢字", "x", ":smile:", "[bold]", "[/]",
]


class PrintOptions(Part):
    name = "print-options"
    rule = ("print(s, markup=False, ...) and log(s, markup=False) for strings assembled from fragments that the default highlighter recognises (uuid, ipv4/ipv6, MAC, url, path, "
            "call, tag and attributes, numbers, constants, quoted strings, brackets) and ordinary words x justify (incl. full) x overflow x no_wrap x soft_wrap x crop x "
            "highlight x emoji x style x end x console width 4..80 x colour system: never raises; non-trivial = the text wraps onto >= 2 lines with justify='full' or "
            "highlighting on")
    budget = {"quick": (8, 400), "thorough": (16, 6000)}

    def strategy(self, tier):
        frag = st.sampled_from(HIGHLIGHT_FRAGMENTS)
        sep = st.sampled_from([" ", " ", " ", "  ", "\n", ", ", "=", ""])
        text = st.lists(st.tuples(frag, sep), min_size=1, max_size=12).map(lambda ps: "".join(a + b for a, b in ps))
        opts = st.fixed_dictionaries({}, optional={
            "justify": st.sampled_from(["default", "left", "center", "right", "full", "full"]), "overflow": st.sampled_from(["fold", "crop", "ellipsis", "ignore"]), "no_wrap": st.booleans(),
            "soft_wrap": st.booleans(), "crop": st.booleans(), "highlight": st.booleans(), "emoji": st.booleans(), "style": st.sampled_from(["bold", "on red", "none", "repr.number"]),
            "end": st.sampled_from(["", "\n", " "]), "width": st.integers(4, 60)})
        return st.builds(lambda t, o, w, cs, route: {"s": t, "opts": o, "W": w, "system": cs, "route": route}, text, opts, st.one_of(st.integers(4, 30), st.integers(4, 80)),
                         st.sampled_from([None, "standard", "truecolor"]), st.sampled_from(["print", "print", "log"]))

    def check(self, spec, ctx):
        from rich.console import Console

        con = sut(Console, file=io.StringIO(), width=spec["W"], color_system=spec["system"], force_terminal=True, legacy_windows=False, log_path=False, _environ={})
        opts = dict(spec["opts"])
        try:
            if spec["route"] == "print":
                con.print(spec["s"], markup=False, **opts)
            else:
                con.log(spec["s"], markup=False, **{k: v for k, v in opts.items() if k in ("justify", "emoji", "highlight", "style", "end")})
        except MemoryError:
            raise
        except Exception as e:  # noqa
            ctx.violation("undocumented-exception", "C14/print/%s" % bucket_of(e), "%s(%r, markup=False, **%r) at width %d raised %r" % (spec["route"], spec["s"], opts, spec["W"], e))
            return
        wraps = len(spec["s"]) > spec["W"]
        if wraps and (opts.get("justify") == "full" or opts.get("highlight", True)):
            ctx.nontrivial = True
        if opts.get("justify") == "full":
            ctx.cls("justify-full")


class Tracebacks(Part):
    name = "tracebacks"
    rule = ("a Traceback renderable built from a real exception: a script written to a temporary file (with a .py extension, an unusual one or none; UTF-8 or latin-1 with a "
            "coding line) raises ValueError / ZeroDivisionError / a chained exception / SyntaxError with details / a bare SyntaxError() / an exception with an empty or "
            "multi-line message, from a call depth of 1-4; x show_locals x word_wrap x extra_lines x theme x width (None or 20..120) x console width: building, printing "
            "and measuring never raise; non-trivial = the file name has no .py extension or show_locals is on")
    budget = {"quick": (8, 60), "thorough": (16, 600)}
    chunk = 60

    def strategy(self, tier):
        return st.builds(lambda name, enc, kind, depth, sl, ww, el, th, w, cw: {"name": name, "encoding": enc, "kind": kind, "depth": depth, "show_locals": sl, "word_wrap": ww, "extra_lines": el, "theme": th, "width": w, "W": cw},
                         st.sampled_from(["mod.py", "mod.py", "tool", "app.wsgi", "hook.plugin", "script.PY", "data.json", "noext."]), st.sampled_from(["utf-8", "utf-8", "latin-1"]),
                         st.sampled_from(["value", "zero", "chained", "syntax", "bare-syntax", "empty-message", "multiline-message", "keyboard"]), st.integers(1, 4), st.booleans(), st.booleans(),
                         st.integers(0, 5), st.sampled_from([None, "monokai", "ansi_dark", "default"]), st.one_of(st.none(), st.integers(20, 120)), st.integers(10, 120))

    def check(self, spec, ctx):
        import os
        import shutil
        import sys
        import tempfile
        import linecache
        from rich.console import Console
        from rich.measure import Measurement
        from rich.traceback import Traceback

        raise_line = {"value": "raise ValueError('bad value: caf\u00e9' if v else 'x')", "zero": "return 1 / (v - v)", "syntax": "return compile('def (:', 'inner.py', 'exec')", "bare-syntax": "raise SyntaxError()",
                      "empty-message": "raise RuntimeError()", "multiline-message": "raise RuntimeError('line one\\nline two\\n')", "keyboard": "raise KeyboardInterrupt()",
                      "chained": "raise KeyError('k')"}[spec["kind"]]
        lines = ["# -*- coding: %s -*-" % spec["encoding"], "# caf\u00e9 \u00fc", ""]
        for d in range(spec["depth"]):
            lines += ["def f%d(v):" % d, "    local_%d = [v] * 3" % d]
            if d < spec["depth"] - 1:
                lines += ["    return f%d(v)" % (d + 1), ""]
            elif spec["kind"] == "chained":
                lines += ["    try:", "        " + raise_line, "    except KeyError as e:", "        raise ValueError('outer') from e", ""]
            else:
                lines += ["    " + raise_line, ""]
        src = "\n".join(lines)
        d = tempfile.mkdtemp(prefix="vp_c14_tb_")
        try:
            path = os.path.join(d, spec["name"])
            with open(path, "w", encoding=spec["encoding"]) as fh:
                fh.write(src)
            glob = {}
            exec(compile(src, path, "exec"), glob)
            try:
                glob["f0"](1)
            except BaseException:  # noqa
                et, ev, tb = sys.exc_info()
            else:
                raise AssertionError("generated script did not raise")
            for what in ("build", "print", "measure"):
                try:
                    trace = Traceback.from_exception(et, ev, tb, width=spec["width"], extra_lines=spec["extra_lines"], theme=spec["theme"], word_wrap=spec["word_wrap"], show_locals=spec["show_locals"])
                    con = Console(file=io.StringIO(), width=spec["W"], color_system="truecolor", force_terminal=True, legacy_windows=False, _environ={})
                    if what == "print":
                        con.print(trace)
                    elif what == "measure":
                        Measurement.get(con, trace, spec["W"])
                except MemoryError:
                    raise
                except Exception as e:  # noqa
                    ctx.violation("undocumented-exception", "C14/traceback/%s" % bucket_of(e), "Traceback of %s raised in %r (%s), %s at width %d: %r; options %r" % (spec["kind"], spec["name"], spec["encoding"], what, spec["W"], e, spec))
                    return
        finally:
            shutil.rmtree(d, ignore_errors=True)
            linecache.clearcache()
        if not spec["name"].endswith(".py") or spec["show_locals"]:
            ctx.nontrivial = True
        ctx.cls("kind-" + spec["kind"])


class NonTermination(Exception):
    pass


def counting_console(W, limit=200000, color_system="truecolor", no_color=False):
    from rich.console import Console

    class Counting(Console):
        calls = 0

        def render(self, renderable, options=None):
            self.calls += 1
            if self.calls > limit:
                raise NonTermination("more than %d render() invocations" % limit)
            return super().render(renderable, options)

    return Counting(file=io.StringIO(), width=W, height=25, color_system=color_system, no_color=no_color, force_terminal=True, legacy_windows=False, _environ={})


def syntax_leaf():
    code = st.lists(st.sampled_from(["x = 1", "", "def f():", "    return 2", "\tif a:", "# 漢字", "print('[bold]')"]), max_size=6).map("\n".join)
    # code in several languages (lexers have token types of their own, themes must cope with all of them)
    other = st.sampled_from(["key: value\nlist:\n  - a\n  - 'b'\n", "SELECT `a`, 'x' FROM t WHERE b = 1;\n", "<a href=\"x\">t</a>\n", "{\"k\": [1, null]}\n", "[s]\nk = 1\n", "# T\n\n*e* `c`\n",
                             "int main(void) { return 0; }\n", "echo \"$HOME\" | grep x\n", "@dec\ndef f(): pass\n", ".. note::\n\n   text\n", "a { color: red; }\n", ""])
    lexer = st.sampled_from(["python", "python", "yaml", "mysql", "sql", "html", "json", "toml", "ini", "markdown", "c", "bash", "rst", "css", "text", "no-such-lexer", "docker", "diff", "xml", "js"])
    theme = st.sampled_from(["monokai", "monokai", "default", "ansi_dark", "ansi_light", "vim", "emacs"])
    return st.builds(lambda c, o, lx, th, ln, lr, ww, nl: {"k": "syntax", "code": (c if lx == "python" else o) + ("\n" if nl else ""), "lexer": lx, "theme": th, "line_numbers": ln, "line_range": lr, "word_wrap": ww},
                     code, other, lexer, theme, st.booleans(), st.one_of(st.none(), st.tuples(st.integers(1, 9), st.integers(1, 12)).map(lambda t: [min(t), max(t)])), st.booleans(), st.booleans())


def markdown_leaf():
    word = st.sampled_from(["alpha", "beta", "x", "漢字", "a_b", "1.", "#", "<b>", "&amp;", "[bold]", "`"])
    dest = st.sampled_from(["screenshot.png", "", "/", "a/b.png", "https://e.example/img/logo.svg", "https://e.example/", "dir/", "//", "x y"])
    inline = st.one_of(
        word, word, word.map(lambda w: "*%s*" % w), word.map(lambda w: "**%s**" % w), word.map(lambda w: "`%s`" % w),
        st.tuples(word, dest).map(lambda t: "[%s](%s)" % t), st.tuples(st.one_of(st.just(""), word), dest).map(lambda t: "![%s](%s)" % t), st.just("  \n"), st.just("\\\n"),
    )
    para = st.lists(inline, min_size=1, max_size=6).map(" ".join)
    block = st.one_of(
        para, para,
        st.tuples(st.integers(1, 6), para).map(lambda t: "#" * t[0] + " " + t[1]),
        st.lists(para, min_size=1, max_size=3).map(lambda ps: "\n".join("- " + x for x in ps)),
        st.lists(para, min_size=1, max_size=3).map(lambda ps: "\n".join("%d. %s" % (i + 1, x) for i, x in enumerate(ps))),
        st.tuples(st.sampled_from([0, 9, 98, 99, 250, 1986, 99999]), st.lists(para, min_size=1, max_size=3)).map(lambda t: "\n".join("%d. %s" % (t[0] + i, x) for i, x in enumerate(t[1]))),
        st.tuples(para, para).map(lambda t: "- %s\n    - %s\n    - %s" % (t[0], t[1], t[0])),
        para.map(lambda x: "> " + x), st.tuples(para, para).map(lambda t: "> %s\n>\n> - %s" % t),
        st.tuples(st.sampled_from(["", "python", "nosuchlang", "text"]), st.lists(st.sampled_from(["x = 1", "", "\tif a:", "漢字 = '[bold]'"]), max_size=3)).map(lambda t: "```%s\n%s\n```" % (t[0], "\n".join(t[1]))),
        st.lists(st.sampled_from(["code", "", "  more"]), min_size=1, max_size=3).map(lambda ls: "\n".join("    " + x for x in ls)),
        st.sampled_from(["---", "***", "<div>raw html</div>", "<!-- c -->", "Title\n=====", "Sub\n---", "", "&nbsp;", "\\*not em\\*"]),
    )
    return st.builds(lambda bs, hl, js, cw: {"k": "markdown", "src": "\n\n".join(bs), "hyperlinks": hl, "justify": js, "code_theme": cw},
                     st.lists(block, max_size=5), st.booleans(), st.sampled_from([None, None, "left", "center", "right", "full"]), st.sampled_from(["monokai", "default"]))


def pretty_leaf(allow_ignore=True):
    lf = st.one_of(st.integers(-5, 10**9), st.sampled_from(["", "a", "漢字" * 4, "x" * 40, "q'\"\n"]), st.none(), st.booleans(), st.floats(allow_nan=False, allow_infinity=False, width=32))
    val = st.recursive(lf, lambda k: st.one_of(st.lists(k, max_size=4), st.lists(k, max_size=3).map(tuple), st.dictionaries(st.sampled_from(["k", "key2", 3]), k, max_size=3)), max_leaves=12)
    # values that are instances of tuple subclasses (named tuples, sys.version_info, time.struct_time) somewhere inside
    special = st.sampled_from([None, None, None, "namedtuple", "version_info", "struct_time", "nested-namedtuple"])
    return st.builds(lambda v, ind, ig, ml, ms, ea, mg, il, ov, nw, sp: dict({"k": "pretty", "v": repr(v), "indent_size": ind, "indent_guides": ig, "max_length": ml, "max_string": ms, "expand_all": ea, "margin": mg,
                                                             "insert_line": il, "overflow": ov, "no_wrap": nw}, **({"special": sp} if sp else {})),
                     val, st.integers(1, 8), st.booleans(), st.one_of(st.none(), st.integers(0, 5)), st.one_of(st.none(), st.integers(0, 10)), st.booleans(), st.integers(0, 10), st.booleans(),
                     st.sampled_from([None, "crop", "fold", "ellipsis"] + (["ignore"] if allow_ignore else [])), st.sampled_from([None, False, True]), special)


def other_leaves(which=None):
    from rich._spinners import SPINNERS

    from rich._emoji_codes import EMOJI

    names = sorted(SPINNERS)
    emoji = st.builds(lambda n, sty: {"k": "emoji", "name": n, "style": sty}, st.sampled_from(sorted(EMOJI)[::97]), st.sampled_from(["none", "bold red"]))
    spinner = st.builds(lambda n, t, tx, sp: {"k": "spinner", "name": n, "time": t, "text": tx, "speed": sp}, st.sampled_from(names), st.floats(0, 100, allow_nan=False), st.sampled_from(["", "working [bold]hard[/]", "漢字 " * 5]),
                        st.sampled_from([1.0, 0.5, 3.0]))
    return st.one_of(emoji, spinner) if which is None else {"emoji": emoji, "spinner": spinner}[which]


def _build_markdown(n):
    from rich.markdown import Markdown

    return Markdown(n["src"], hyperlinks=n["hyperlinks"], justify=n["justify"], code_theme=n["code_theme"])


def _build_pretty(n):
    from rich.pretty import Pretty

    value = eval(n["v"], {"__builtins__": {}})
    if n.get("special"):
        import collections
        import sys as _sys
        import time as _time

        P = collections.namedtuple("P", "x y")
        extra = {"namedtuple": P(1, "two"), "version_info": _sys.version_info, "struct_time": _time.gmtime(0), "nested-namedtuple": [P(P(1, 2), [3])]}[n["special"]]
        value = [value, extra, {"k": extra}]
    return Pretty(value, indent_size=n["indent_size"], indent_guides=n["indent_guides"], max_length=n["max_length"], max_string=n["max_string"], expand_all=n["expand_all"],
                  margin=n["margin"], insert_line=n["insert_line"], overflow=n["overflow"], no_wrap=n["no_wrap"])


def _build_emoji(n):
    from rich.emoji import Emoji

    return Emoji(n["name"], style=n["style"])


class _SpinnerAt:
    """A Spinner rendered at a fixed time (the console clock is not part of the case)."""

    def __init__(self, n):
        from rich.spinner import Spinner

        self.spinner = Spinner(n["name"], text=n["text"], speed=n["speed"])
        self.time = n["time"]

    def __rich_console__(self, console, options):
        yield self.spinner.render(self.time)

    def __rich_measure__(self, console, max_width):
        return self.spinner.__rich_measure__(console, max_width)


def _build_syntax(n):
    from rich.syntax import Syntax

    return Syntax(n["code"], n.get("lexer", "python"), theme=n.get("theme", "monokai"), line_numbers=n["line_numbers"], line_range=tuple(n["line_range"]) if n["line_range"] else None, word_wrap=n["word_wrap"])


def _wide_min(text):
    from ..oracles import cells as OC

    return 2 if any(OC.cw(c) == 2 for c in text) else 1


def _syntax_min(n):
    # the gutter (marker, right-aligned number, space) plus one character of code
    gutter = len(str(1 + n["code"].count("\n"))) + 3 if n["line_numbers"] else 0
    return gutter + _wide_min(n["code"])


def _spinner_min(n):
    from rich._spinners import SPINNERS

    return _wide_min("".join(SPINNERS[n["name"]]["frames"]) + n["text"]) + (0 if not n["text"] else 0)


GT.EXTRA_MIN.update({"emoji": lambda n: 2, "syntax": _syntax_min, "pretty": lambda n: _wide_min(n["v"]), "markdown": lambda n: _wide_min(n["src"]), "spinner": _spinner_min})
GT.EXTRA_BUILDERS.update({"markdown": _build_markdown, "pretty": _build_pretty, "emoji": _build_emoji, "spinner": _SpinnerAt, "syntax": _build_syntax})


class Trees(Part):
    name = "trees"
    rule = ("trees as C01 but with the whole valid option space (column width/min_width/no_wrap, table width/min_width, overflow='ignore', "
            "Panel/Align/Constrain/Columns/Bar widths, tables without columns, ratio=0, Text/title tab_size incl. None and title overflow/no_wrap; leaves also Syntax (line ranges beyond the code), "
            "Markdown (generated from a block/inline grammar incl. images without alt text, unknown fence languages, raw html), Pretty (all options), Emoji, Spinner (every name)) x W in 1..200: render(), print() and "
            "Measurement.get() return; non-trivial = W below the structural minimum or an explicit width option present")
    budget = {"quick": (16, 450), "thorough": (16, 8000)}
    chunk = 150

    def strategy(self, tier):
        w = st.one_of(st.integers(1, 6), st.integers(1, 30), st.integers(1, 200))
        extra = st.one_of(syntax_leaf(), markdown_leaf(), markdown_leaf(), pretty_leaf(), other_leaves())
        wrap = st.one_of(GT.node(0, "any", extra=extra), GT.node(0, "any", extra=extra), GT.node(0, "any"), extra,
                         st.builds(lambda s, p: {"k": "panel", "child": s, "box": "ROUNDED", "title": None, "title_align": "center", "expand": True, "padding": [0, 1], "width": None} if p else s, syntax_leaf(), st.booleans()))
        return st.builds(lambda t, w, cs, nc: {"tree": t, "W": w, "system": cs, "no_color": nc}, wrap, w, st.sampled_from(["truecolor", "truecolor", "standard", "256", "windows", None]), st.sampled_from([False, False, False, True]))

    def check(self, spec, ctx):
        from rich.measure import Measurement

        tree = spec["tree"]
        W = spec["W"]

        build = GT.build
        kinds = GT.kinds_of(tree)
        has_syntax = "syntax" in kinds
        smin = GT.struct_min(tree)
        for what in ("render", "measure", "print"):
            con = counting_console(W, color_system=spec.get("system", "truecolor"), no_color=spec.get("no_color", False))
            try:
                r = build(tree)
                if what == "render":
                    list(con.render(r, con.options))
                elif what == "measure":
                    Measurement.get(con, r, W)
                    Measurement.get(con, r)
                else:
                    con.print(r)
            except MemoryError:
                raise
            except NonTermination as e:
                ctx.violation("termination", "C14/termination/%s" % tree["k"], "%s at W=%d: %s; tree=%r" % (what, W, e, tree))
                return
            except Exception as e:  # noqa
                b = bucket_of(e)
                if b == "AssertionError@_ratio.py:ratio_distribute" and "'ratio': 0" in repr(tree):
                    b = "ratio0/" + b   # known finding F6: the width solver hands a zero-ratio column a negative width when space is short
                ctx.violation("undocumented-exception", "C14/tree/%s" % b, "%s at W=%d raised %r; tree=%r" % (what, W, e, tree))
                return
        explicit = "'width': " in repr(tree) and any(("'width': %d" % k) in repr(tree) for k in range(1, 81))
        if W < smin or explicit:
            ctx.nontrivial = True
        if W < smin:
            ctx.cls("below-structural-minimum")
        for k in ("syntax", "markdown", "pretty", "emoji", "spinner"):
            if k in kinds:
                ctx.cls(k)
        if "'cols': []" in repr(tree):
            ctx.cls("table-without-columns")
        if "'tab_size': None" in repr(tree):
            ctx.cls("text-with-console-tab-size")


class Fuzz(Part):
    """Coverage-guided campaign (atheris / libFuzzer) over the string parsers; thorough tier only."""

    name = "atheris"
    custom = True
    rule = ("atheris (libFuzzer) coverage-guided bytes -> (entry selector, UTF-8 text) over the ten entry points with rich instrumented; corpus = empty + "
            "token alphabets; parser caches cleared every 10k iterations; skipped (reported) when atheris is not importable")
    budget = {"quick": (0, 0), "thorough": (8, 1)}

    def run_shard(self, tier, shard, nshards, seed, stats, deadline, known):
        import os
        import subprocess
        import sys
        import tempfile
        import json

        here = os.path.dirname(os.path.dirname(os.path.abspath(__file__)))
        corpus = tempfile.mkdtemp(prefix="vp_c14_corpus_")
        crashes = tempfile.mkdtemp(prefix="vp_c14_crash_")
        try:
            if shard % 2 == 1:  # odd shards start from the token corpus, even shards from an empty one
                entries = sum(ENTRY.values(), [])
                k = 0
                for fam, alpha in ALPHABETS.items():
                    for t in alpha:
                        for ei, e in enumerate(entries):
                            if e in ENTRY[fam]:
                                with open(os.path.join(corpus, "t%d" % k), "wb") as f:
                                    f.write(bytes([ei]) + t.encode("utf-8", "surrogatepass"))
                                k += 1
            runs = 400000
            cmd = [sys.executable, "-B", "-m", "vp.fuzz_c14", corpus, "-runs=%d" % runs, "-seed=%d" % (seed * 100 + shard + 1), "-max_len=64", "-artifact_prefix=" + crashes + "/", "-print_final_stats=1"]
            env = dict(os.environ, PYTHONPATH=here + os.pathsep + os.path.join(here, ".deps"))
            budget = max(30, min(600, deadline - time.time() - 60))
            try:
                p = subprocess.run(cmd, cwd=here, env=env, stdout=subprocess.PIPE, stderr=subprocess.STDOUT, text=True, timeout=budget)
                out = p.stdout
            except subprocess.TimeoutExpired as e:
                out = (e.stdout or b"").decode("utf-8", "replace") if isinstance(e.stdout, bytes) else (e.stdout or "")
                stats.extra["atheris_timeouts"] = 1
            if "ATHERIS-UNAVAILABLE" in out:
                stats.extra["atheris_unavailable"] = 1
                stats.done += 1
                return
            execs = 0
            for line in out.splitlines():
                if "stat::number_of_executed_units" in line:
                    execs = int(line.split()[-1])
            stats.evaluations += execs
            stats.extra["atheris_execs"] = execs
            for name in os.listdir(crashes):
                data = open(os.path.join(crashes, name), "rb").read()
                if not data:
                    continue
                entries = sum(ENTRY.values(), [])
                entry = entries[data[0] % len(entries)]
                s = data[1:].decode("utf-8", "replace")
                try:
                    run_entry(entry, s)
                except SutError as e:
                    sig = "C14/exc/%s/%s" % (entry, e.bucket)
                    if known.match(sig):
                        continue
                    stats.found[sig] = {"spec": {"entry": entry, "s": s}, "clause": "undocumented-exception", "detail": "%s(%r) raised %r (found by atheris)" % (entry, s, e.exc), "size": len(s), "part": "tokens"}
            stats.samples.append((1, {"shard": shard, "corpus": "tokens" if shard % 2 else "empty", "executions": execs}, "fuzz"))
            stats.nontrivial_count_distinct += 0
            stats.done += 1
        finally:
            import shutil

            shutil.rmtree(corpus, ignore_errors=True)
            shutil.rmtree(crashes, ignore_errors=True)


class AnyCharInSyntax(Part):
    name = "any-character-in-syntax"
    custom = True
    exhaustive = True
    rule = ("for every code point c of the Basic Multilingual Plane (surrogates aside) and every 64th astral one: c inserted at the syntax-significant positions of colour, style, "
            "markup and SGR templates - before / after a number inside rgb() and color(), inside a hex colour, before a colour name, between the words of a style definition, after a "
            "tag's '=', inside an SGR parameter list and an OSC 8 introducer - fed to Color.parse / Style.parse / Style.normalize / markup.render / AnsiDecoder: a value or the documented "
            "error, whatever character it is (white space the parser strips but int() does not, digits of other scripts, separators, controls); non-trivial = c is not ASCII")
    budget = {"quick": (16, 1), "thorough": (16, 1)}
    TEMPLATES = [("Color.parse", "rgb(1,%s2,3)"), ("Color.parse", "rgb(1,2%s,3)"), ("Color.parse", "rgb(%s1,2,3%s)"), ("Color.parse", "color(%s5)"), ("Color.parse", "color(5%s)"), ("Color.parse", "#ff%s000"),
                 ("Color.parse", "%sred"), ("Style.parse", "bold%sred"), ("Style.parse", "on %srgb(1,2,3)"), ("Style.parse", "not%sbold"), ("Style.parse", "link %s"), ("Style.normalize", "bold%son red"),
                 ("markup.render", "[link=%s]x[/link]"), ("markup.render", "[rgb(1,%s2,3)]x"), ("markup.render", "[%s]x[/%s]"), ("AnsiDecoder", "\x1b[1%sm x"), ("AnsiDecoder", "\x1b[38;5;%s1m x"),
                 ("AnsiDecoder", "\x1b]8;%s;http://x\x1b\\y\x1b]8;;\x1b\\")]

    def run_shard(self, tier, shard, nshards, seed, stats, deadline, known):
        from rich.color import Color
        from rich.style import Style

        n = nt = 0
        found = {}
        cps = [cp for cp in range(shard, 0x10000, nshards) if not 0xD800 <= cp <= 0xDFFF] + [cp for cp in range(0x10000 + shard * 64, 0x110000, 64 * nshards)]
        for i, cp in enumerate(cps):
            c = chr(cp)
            for entry, tpl in self.TEMPLATES:
                s = tpl.replace("%s", c)
                n += 1
                try:
                    run_entry(entry, s)
                except SutError as e:
                    sig = "C14/exc/%s/%s" % (entry, e.bucket)
                    if sig not in found:
                        found[sig] = (s, entry, repr(e.exc))
            if cp > 127:
                nt += len(self.TEMPLATES)
            if i % 4096 == 0:
                for fn in (Color.parse, Style.parse, Style.normalize):
                    fn.cache_clear()
                if time.time() > deadline:
                    stats.capped = True
                    break
        stats.evaluations += n
        stats.nontrivial_count_distinct += nt
        if not stats.capped:
            stats.done += 1
        stats.samples.append((1, {"shard": shard, "code points": len(cps), "templates": [t for _, t in self.TEMPLATES[:4]]}, "range"))
        for sig, (s, entry, detail) in found.items():
            if known.match(sig):
                stats.excluded_known[known.match(sig)["id"]] = stats.excluded_known.get(known.match(sig)["id"], 0) + 1
                continue
            stats.found[sig] = {"spec": {"entry": entry, "s": s}, "clause": "undocumented-exception", "detail": "%s(%r) raised %s" % (entry, s[:200], detail), "size": len(s), "part": self.name}

    def replay(self, spec, ctx):
        return Tokens().replay(spec, ctx)


class DeepTrees(Part):
    name = "deep-trees"
    rule = ("a Tree nested 50 .. 1500 levels deep (one child per level, or a few siblings per level) measured, printed, and printed inside Panel.fit / a table cell / Columns / Align / "
            "Padding on a console 20 .. 400 cells wide: Tree walks its nodes iteratively, so depth alone never raises (RecursionError included); non-trivial = deeper than 400 levels")
    budget = {"quick": (4, 12), "thorough": (16, 60)}

    def strategy(self, tier):
        return st.builds(lambda d, sib, w, how: {"depth": d, "siblings": sib, "W": w, "how": how}, st.one_of(st.integers(50, 1500), st.sampled_from([480, 495, 500, 600, 990, 1000, 1200])),
                         st.integers(0, 2), st.sampled_from([20, 80, 400]), st.sampled_from(["measure", "print", "panel-fit", "table", "columns", "align", "padding"]))

    def check(self, spec, ctx):
        from rich.console import Console
        from rich.tree import Tree
        from rich.panel import Panel
        from rich.table import Table
        from rich.columns import Columns
        from rich.align import Align
        from rich.padding import Padding
        from rich.measure import Measurement

        root = sut(Tree, "r")
        node = root
        for i in range(spec["depth"]):
            for j in range(spec["siblings"]):
                sut(node.add, "s%d" % j)
            node = sut(node.add, "n%d" % i)
        con = sut(Console, file=io.StringIO(), width=spec["W"], color_system=None, _environ={})
        how = spec["how"]
        if how == "measure":
            sut(Measurement.get, con, root, spec["W"])
        elif how == "print":
            sut(con.print, root)
        elif how == "panel-fit":
            sut(con.print, Panel.fit(root))
        elif how == "table":
            t = Table("a", "b")
            t.add_row(root, "x")
            sut(con.print, t)
        elif how == "columns":
            sut(con.print, Columns([root, "x"]))
        elif how == "align":
            sut(con.print, Align(root, "center"))
        else:
            sut(con.print, Padding(root, 1))
        ctx.cls(how)
        if spec["depth"] > 400:
            ctx.nontrivial = True


PARTS = [Tokens(), AnyCharInSyntax(), DeepTrees(), Unicode(), Trees(), Fuzz(), PrintOptions(), Tracebacks()]
