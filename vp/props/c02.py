"""C02 - word wrapping keeps every character, in order, with its own style."""
from hypothesis import strategies as st

from ..core import Part, sut
from ..gen import styles as GS, chars as GC
from ..oracles import textview as TV, cells as OC

PROP_ID = "C02"
LEVEL = "exploration"
RULE = "Hypothesis: unique-character texts x span sets x width x justify x overflow x no_wrap x tab_size, fresh or after a history of wraps and edits of the same Text; every output character identifies its input offset"
ASSUMPTIONS = [
    "every non-whitespace character of a case is distinct, so an output character identifies its input offset (wrapping depends only on widths and whitespace classes)",
    "whitespace = str.isspace(); exotic line separators (\\x1c-\\x1e, \\x85, U+2028/9) and the characters Text strips are not in the alphabet - DESIGN 7.1/7.2",
    "padding added by justification and the ellipsis character are exempt from the style clause; interior whitespace is not compared",
    "tabs are expanded per line to the next multiple of tab_size (str.expandtabs semantics)",
    "rewrap: the text that is wrapped is the one the Text object holds at that moment (its .plain is read just before the wrap); the editing methods themselves are C05's subject - here they "
    "are history, and the only thing assumed about them is that a character they keep keeps its style and a character they add has the style it was added with",
]

PAL = GS.PALETTE


def _token(draw, out, pools, idx):
    k = draw(st.integers(0, 11))
    if k <= 5:
        ln = draw(st.integers(1, 9))
        pat = draw(st.lists(st.sampled_from("nnnnnwwz"), min_size=ln, max_size=ln))
        for p in pat:
            if idx[p] >= len(pools[p]):
                p = "n"
            out.append(pools[p][idx[p]])
            idx[p] += 1
    elif k <= 7:
        out.append(" " * draw(st.integers(1, 4)))
    elif k == 8:
        # a run of white space that mixes ordinary spaces with the two-cell ideographic space (cells != characters inside the run)
        out.append("".join(draw(st.lists(st.sampled_from("  \u3000"), min_size=1, max_size=4))))
    elif k == 9:
        out.append("\n")
    elif k == 10:
        out.append("\t")
    else:
        out.append(draw(st.sampled_from(["\u3000", "\n\n", " \n", "\n "])))


POOLS = {"n": list(GC.UNIQ_NARROW), "w": list(GC.UNIQ_WIDE), "z": list(GC.UNIQ_ZERO)}


@st.composite
def unique_text(draw, max_tokens=12, idx=None):
    """idx: positions in the three pools of unique characters, shared by the successive pieces of one case so that the pieces never repeat a character."""
    n = draw(st.integers(0, max_tokens))
    if idx is None:
        idx = {"n": 0, "w": 0, "z": 0}
    out = []
    for _ in range(n):
        _token(draw, out, POOLS, idx)
    return "".join(out)


def draw_spans(draw, n, most=8):
    spans = []
    for _ in range(draw(st.integers(0, most))):
        kind = draw(st.integers(0, 5))
        if kind == 0 and spans:
            a, b, s = spans[draw(st.integers(0, len(spans) - 1))]
            # remainder-equal partner: same end and style, later start (what Text.divide used to confuse)
            a2 = draw(st.integers(a, b))
            spans.append([a2, b, s])
        elif kind == 1 and spans:
            spans.append(list(spans[draw(st.integers(0, len(spans) - 1))]))  # identical duplicate
        else:
            a = draw(st.integers(0, n))
            b = draw(st.integers(a, n))
            spans.append([a, b, draw(st.integers(0, len(PAL) - 1))])
    return spans


@st.composite
def case(draw):
    text = draw(unique_text())
    spans = draw_spans(draw, len(text))
    width = draw(st.one_of(st.integers(2, 12), st.integers(2, 12), st.integers(2, 40), st.integers(2, 200)))
    return {
        "text": text,
        "spans": spans,
        "base": draw(st.one_of(st.none(), st.sampled_from(PAL))),
        "width": width,
        "justify": draw(st.sampled_from(["default", "left", "center", "right", "full"])),
        "overflow": draw(st.sampled_from(["fold", "fold", "fold", "crop", "ellipsis", "ignore"])),
        "no_wrap": draw(st.sampled_from([False, False, False, True])),
        "tab_size": draw(st.integers(1, 8)),
        "via": draw(st.sampled_from(["wrap", "wrap", "render"])),
        # the Text's own attributes disagree with the arguments given to wrap(): the arguments win
        "own": draw(st.one_of(st.none(), st.none(), st.tuples(st.sampled_from([None, "crop", "ellipsis", "fold", "ignore"]), st.sampled_from([None, "left", "center", "right", "full"]), st.sampled_from([None, False, True])).map(list))),
        "prelude": draw(st.one_of(st.none(), st.none(), st.tuples(st.sampled_from(["crop", "ellipsis", "fold", "ignore"]), st.sampled_from(["default", "left", "center", "right", "full"]), st.booleans(), st.booleans()).map(list))),
    }


def is_space(c):
    return c.isspace()


def split_rows(flat):
    rows = [[]]
    for ch, sv in flat:
        if ch == "\n":
            rows.append([])
        else:
            rows[-1].append((ch, sv))
    return rows


def observe_wrap(t, con, width, justify, overflow, no_wrap, tab_size):
    """Text.wrap, observed twice: every returned line rendered on its own, and the returned lines put together again with new lines between them (what Text.__rich_console__
    does with them before anything reaches the screen; a line is a Text value and must behave as one when it is composed with others)."""
    from rich.text import Text

    lines = sut(t.wrap, con, width, justify=justify, overflow=overflow, tab_size=tab_size, no_wrap=no_wrap)
    out_lines = [TV.char_styles(l) for l in lines]
    joined = sut(Text("\n").join, lines)
    return out_lines, split_rows(sut(TV.char_styles, joined))


def observe_render(t, width, justify, overflow, no_wrap, tab_size):
    """The text rendered by a console whose options give it `width` cells (Text.__rich_console__: wrap, then the lines joined)."""
    t.justify, t.overflow, t.no_wrap = justify, overflow, no_wrap
    t.end = ""
    con2 = TV.console()
    old_tab = con2.tab_size
    con2.tab_size = tab_size
    try:
        segs = list(sut(lambda: list(con2.render(t, con2.options.update(width=width)))))
    finally:
        con2.tab_size = old_tab
    return split_rows(TV.seg_chars(segs))


def judge(ctx, text, want_style, out_lines, width, justify, overflow, effective_no_wrap, tab_size, what, joined=None):
    """The four clauses on one wrap. text = the characters that were wrapped; want_style = {non-space character: expected style view}; out_lines = [[(character, style view)]].
    joined = the same lines observed after being joined (style clause only). Returns None after a violation, else whether a word was broken."""
    nonspace = [c for c in text if not is_space(c)]
    # (2) every line fits
    if overflow != "ignore":
        for li, l in enumerate(out_lines):
            w = sum(OC.cw(c) for c, _ in l)
            if w > width:
                ctx.violation("fits", "C02/fits/%s" % overflow, "line %d %r is %d cells wide, width %d (%r)" % (li, "".join(c for c, _ in l), w, width, what))
                return None
    # (1) bijection on non-space characters
    got_ns = [c for l in out_lines for c, _ in l if not is_space(c) and c != "…"]
    if overflow == "fold" and not effective_no_wrap:
        if got_ns != nonspace:
            dropped = [c for c in nonspace if c not in got_ns]
            ctx.violation("bijection", "C02/bijection/%s" % ("dropped" if dropped else "reordered-or-duplicated"),
                          "non-space characters out %r != in %r (text %r width %d justify %s)" % ("".join(got_ns), "".join(nonspace), text, width, justify))
            return None
    else:
        # whatever is output must be a subsequence of the input, no duplicates
        it = iter(nonspace)
        for c in got_ns:
            for d in it:
                if d == c:
                    break
            else:
                ctx.violation("bijection", "C02/bijection/invented", "output character %r out of order / not from the input %r" % (c, text))
                return None
    # (3) styles
    for li, l in enumerate(out_lines):
        for c, sv in l:
            if c in want_style and sv != want_style[c]:
                ctx.violation("style", "C02/style/%s" % ("wrapped" if len(out_lines) > 1 else "single-line"),
                              "character %r (input offset %d) carries %r, expected %r; text %r width %d (%r)" % (c, text.index(c), sv, want_style[c], text, width, what))
                return None
    if joined is not None:
        if [c for l in joined for c, _ in l] != [c for l in out_lines for c, _ in l]:
            ctx.violation("bijection", "C02/bijection/joined", "the lines of wrap() joined with new lines hold %r, the lines themselves %r; text %r width %d" % (
                ["".join(c for c, _ in l) for l in joined], ["".join(c for c, _ in l) for l in out_lines], text, width))
            return None
        for li, l in enumerate(joined):
            for c, sv in l:
                if c in want_style and sv != want_style[c]:
                    ctx.violation("style", "C02/style/joined",
                                  "after the lines of wrap() are joined with new lines, character %r (input offset %d, line %d) carries %r, expected %r; text %r width %d (%r)" % (
                                      c, text.index(c), li, sv, want_style[c], text, width, what))
                    return None
    # (4) a word is broken only if it (plus indentation when first on its source line) is wider than the width
    line_of = {}
    for li, l in enumerate(out_lines):
        for c, _ in l:
            if c in want_style:
                line_of.setdefault(c, li)
    broken_word = False
    if not effective_no_wrap:
        for src in text.split("\n"):
            exp = src.expandtabs(tab_size)
            i = 0
            first = True
            while i < len(exp):
                if is_space(exp[i]):
                    i += 1
                    continue
                j = i
                while j < len(exp) and not is_space(exp[j]):
                    j += 1
                word = exp[i:j]
                ls = {line_of[c] for c in word if c in line_of}
                if len(ls) > 1:
                    broken_word = True
                    need = OC.width(exp[:j]) if first else OC.width(word)
                    if need <= width:
                        ctx.violation("break", "C02/break/%s" % overflow, "word %r (needs %d cells%s) was split across lines at width %d; text %r" % (word, need, " with its indentation" if first else "", width, text))
                        return None
                first = False
                i = j
    return broken_word


class Wrap(Part):
    name = "wrap"
    rule = ("texts of <=12 tokens (words of 1-9 unique narrow/wide/zero-width characters, runs of spaces, runs mixing spaces with U+3000, newlines, tabs) x 0-8 spans from a "
            "conflicting palette (overlapping, nested, duplicated, empty, remainder-equal) x base style x width 2..200 (biased to 2..12) x justify x "
            "overflow x no_wrap x tab_size, through Text.wrap (each line rendered on its own, and the style clause once more on the lines joined with new lines) and through console "
            "rendering; non-trivial = >=2 output lines and (>=2 overlapping "
            "spans with different styles, or a word broken by folding, or a wide character ending a full line)")
    budget = {"quick": (16, 1500), "thorough": (16, 25000)}

    def strategy(self, tier):
        return case()

    def check(self, spec, ctx):
        from rich.text import Text, Span
        from rich.console import Console

        text = spec["text"]
        nonspace = [c for c in text if not is_space(c)]
        if len(set(nonspace)) != len(nonspace) or "…" in text:
            return
        width = spec["width"]
        spans = [Span(a, b, GS.build_style(PAL[s])) for a, b, s in spec["spans"]]
        base = GS.build_style(spec["base"]) if spec["base"] else ""
        own = spec.get("own") if spec["via"] == "wrap" else None
        if own:
            t = sut(Text, text, style=base, spans=list(spans), tab_size=spec["tab_size"], overflow=own[0], justify=own[1], no_wrap=own[2])
            ctx.cls("own-attributes-differ")
        else:
            t = sut(Text, text, style=base, spans=list(spans), tab_size=spec["tab_size"])
        con = TV.console()
        overflow, justify, no_wrap = spec["overflow"], spec["justify"], spec["no_wrap"]
        prelude = spec.get("prelude")
        if prelude:
            # history: the same text was wrapped before - another Text with the same characters at the same width under other options, and/or this very
            # object (wrapping must neither remember anything across calls nor modify the text it is given)
            other = sut(Text, text, tab_size=spec["tab_size"])
            sut(other.wrap, con, width, overflow=prelude[0], justify=prelude[1], tab_size=spec["tab_size"])
            if prelude[2]:
                spans_before = list(t.spans)
                plain_before = t.plain
                sut(t.wrap, con, width, overflow=prelude[0], justify=prelude[1], tab_size=spec["tab_size"], no_wrap=prelude[3])
                if t.plain != plain_before or list(t.spans) != spans_before:
                    ctx.violation("style", "C02/style/wrap-modified-its-input", "wrap() changed the text it was given: spans %r -> %r" % (spans_before, t.spans))
                    return
            ctx.cls("prelude")
        joined = None
        if spec["via"] == "wrap":
            out_lines, joined = observe_wrap(t, con, width, justify, overflow, no_wrap, spec["tab_size"])
        else:
            out_lines = observe_render(t, width, justify, overflow, no_wrap, spec["tab_size"])
        ctx.cls("via-" + spec["via"], "overflow-" + overflow, "justify-" + justify)
        effective_no_wrap = no_wrap or overflow == "ignore"
        # expected per-offset style
        want_style = {}
        for i, c in enumerate(text):
            if not is_space(c):
                cover = [PAL[s] for a, b, s in spec["spans"] if a <= i < b]
                want_style[c] = GS.spec_view(GS.merge(spec["base"], *cover))
        broken_word = judge(ctx, text, want_style, out_lines, width, justify, overflow, effective_no_wrap, spec["tab_size"], spec, joined=joined)
        if broken_word is None:
            return
        # non-trivial
        if len(out_lines) >= 2:
            overlapping = False
            sp = spec["spans"]
            for x in range(len(sp)):
                for y in range(x + 1, len(sp)):
                    if sp[x][2] != sp[y][2] and max(sp[x][0], sp[y][0]) < min(sp[x][1], sp[y][1]):
                        overlapping = True
            wide_end = any(l and OC.cw(l[-1][0]) == 2 and sum(OC.cw(c) for c, _ in l) == width for l in out_lines)
            if overlapping or broken_word or wide_end:
                ctx.nontrivial = True
                if broken_word:
                    ctx.cls("fold-broken-word")
                if wide_end:
                    ctx.cls("wide-at-line-end")
                if overlapping:
                    ctx.cls("overlapping-spans")


STYLE_IDX = st.one_of(st.none(), st.integers(0, len(PAL) - 1))


@st.composite
def edit_op(draw, idx):
    """One call of the public editing API of Text, as a JSON-able list [name, arguments...]. Offsets and lengths are reduced modulo the length the text has when the call is made."""
    k = draw(st.integers(0, 15))
    piece = lambda: draw(unique_text(max_tokens=4, idx=idx))  # noqa: E731
    if k == 0 or k == 1:
        return ["append_tokens", [[piece(), draw(STYLE_IDX)] for _ in range(draw(st.integers(1, 3)))]]
    if k == 2:
        return ["append", piece(), draw(STYLE_IDX)]
    if k == 3:
        return ["append_text", piece(), draw(STYLE_IDX)]
    if k == 4:
        return ["right_crop", draw(st.integers(0, 12))]
    if k == 5:
        return ["remove_suffix", draw(st.integers(0, 8))]
    if k == 6:
        return ["set_length", draw(st.integers(-12, 6))]
    if k == 7:
        return ["expand_tabs", draw(st.one_of(st.none(), st.integers(1, 8)))]
    if k == 8 or k == 9:
        return ["truncate", draw(st.integers(1, 40)), draw(st.sampled_from([None, "crop", "fold", "ignore"])), draw(st.booleans())]
    if k == 10:
        return ["pad", draw(st.sampled_from(["left", "right", "both"])), draw(st.integers(0, 5))]
    if k == 11:
        return ["align", draw(st.sampled_from(["left", "center", "right"])), draw(st.integers(1, 40))]
    if k == 12:
        return draw(st.sampled_from([["rstrip"], ["rstrip_end", draw(st.integers(0, 30))], ["copy"]]))
    if k == 13:
        return ["stylize", draw(st.integers(0, len(PAL) - 1)), draw(st.integers(0, 60)), draw(st.integers(0, 30))]
    if k == 14:
        return ["plain_extend", piece()]
    return ["plain_cut", draw(st.integers(0, 12))]


@st.composite
def history(draw):
    idx = {"n": 0, "w": 0, "z": 0}
    text = draw(unique_text(max_tokens=8, idx=idx))
    spans = draw_spans(draw, len(text), most=5)
    width = draw(st.one_of(st.integers(2, 12), st.integers(2, 12), st.integers(2, 40)))
    rounds = []
    for r in range(draw(st.integers(2, 4))):
        ops = [draw(edit_op(idx)) for _ in range(draw(st.integers(1, 3)))] if r else []
        rounds.append({
            "ops": ops,
            # None: the same width as the wrap before (a text that is displayed again after it was edited)
            "width": None if r and draw(st.integers(0, 3)) else draw(st.one_of(st.integers(2, 12), st.integers(2, 40))) if r else width,
            "justify": draw(st.sampled_from(["default", "default", "left", "center", "right", "full"])),
            "overflow": draw(st.sampled_from(["fold", "fold", "fold", "fold", "crop", "ellipsis", "ignore"])),
            "no_wrap": draw(st.sampled_from([False, False, False, False, False, True])),
            "via": draw(st.sampled_from(["wrap", "wrap", "render"])),
        })
    return {"text": text, "spans": spans, "base": draw(st.one_of(st.none(), st.sampled_from(PAL))), "tab_size": draw(st.integers(1, 8)), "rounds": rounds}


class Rewrap(Part):
    name = "rewrap"
    rule = ("one Text object with a history: built as in `wrap` (<=8 tokens, 0-5 spans), wrapped, then 1-3 further rounds of 1-3 calls of its public editing API (append_tokens, append, "
            "append_text, right_crop, remove_suffix, set_length, expand_tabs, truncate with and without pad, pad_left/right/pad, align, rstrip, rstrip_end, copy, stylize, "
            "assignment to .plain - added pieces use characters not used before) followed by another wrap, at the same width as before (3 of 4) or another one, under any justify / "
            "overflow / no_wrap, through Text.wrap or console rendering; after every wrap the four clauses are checked against the characters the object holds at that moment "
            "(its .plain read just before the wrap) and the style every one of them was given (constructor spans, style of the piece it arrived in, later stylize calls), and wrap must "
            "leave the object unchanged; non-trivial = some wrap of >=2 lines was made at the width of an earlier wrap of the same object after the characters changed")
    budget = {"quick": (16, 700), "thorough": (16, 12000)}

    def strategy(self, tier):
        return history()

    @staticmethod
    def apply(t, op, overlay, Text):
        """Apply one editing call to the Text; keep `overlay` ({character: [palette index, ...]} in order of precedence) up to date. Returns the Text (copy replaces it)."""
        name = op[0]
        plain = t.plain
        n = len(plain)
        sty = lambda s: None if s is None else GS.build_style(PAL[s])  # noqa: E731

        def added(piece, s):
            for c in piece:
                if not is_space(c):
                    overlay[c] = [] if s is None else [s]

        if name == "append_tokens":
            for piece, s in op[1]:
                added(piece, s)
            sut(t.append_tokens, [(piece, sty(s)) for piece, s in op[1]])
        elif name == "append":
            added(op[1], op[2])
            sut(t.append, op[1], sty(op[2]))
        elif name == "append_text":
            added(op[1], op[2])
            sut(t.append_text, sut(Text, op[1], style=sty(op[2]) or ""))
        elif name == "right_crop":
            sut(t.right_crop, op[1])
        elif name == "remove_suffix":
            sut(t.remove_suffix, plain[n - min(op[1], n):] if op[1] else "")
        elif name == "set_length":
            sut(t.set_length, max(0, n + op[1]))
        elif name == "expand_tabs":
            sut(t.expand_tabs, op[1])
        elif name == "truncate":
            sut(t.truncate, op[1], overflow=op[2], pad=op[3])
        elif name == "pad":
            sut({"left": t.pad_left, "right": t.pad_right, "both": t.pad}[op[1]], op[2])
        elif name == "align":
            sut(t.align, op[1], op[2])
        elif name == "rstrip":
            sut(t.rstrip)
        elif name == "rstrip_end":
            sut(t.rstrip_end, op[1])
        elif name == "copy":
            t = sut(t.copy)
        elif name == "stylize":
            a = op[2] % (n + 1)
            b = min(n, a + op[3])
            for c in plain[a:b]:
                if c in overlay:
                    overlay[c].append(op[1])  # the span is added after all the others: it wins
            sut(t.stylize, sty(op[1]), a, b)
        elif name == "plain_extend":
            # every span ends inside the text, so the characters assigned after the old end carry the base style only
            added(op[1], None)
            sut(setattr, t, "plain", plain + op[1])
        elif name == "plain_cut":
            sut(setattr, t, "plain", plain[: n - min(op[1], n)])
        else:
            raise ValueError(name)
        return t

    def check(self, spec, ctx):
        from rich.text import Text, Span

        text = spec["text"]
        pieces = [text]
        for rnd in spec["rounds"]:
            for op in rnd["ops"]:
                if op[0] == "append_tokens":
                    pieces.extend(p for p, _ in op[1])
                elif op[0] in ("append", "append_text", "plain_extend"):
                    pieces.append(op[1])
        every = [c for p in pieces for c in p if not is_space(c)]
        if len(set(every)) != len(every) or "…" in every:
            return
        tab_size = spec["tab_size"]
        spans = [Span(a, b, GS.build_style(PAL[s])) for a, b, s in spec["spans"]]
        t = sut(Text, text, style=GS.build_style(spec["base"]) if spec["base"] else "", spans=list(spans), tab_size=tab_size)
        overlay = {}
        for i, c in enumerate(text):
            if not is_space(c):
                overlay[c] = [s for a, b, s in spec["spans"] if a <= i < b]
        con = TV.console()
        width = None
        wrapped = []  # (width, characters) of the wraps made so far
        for ri, rnd in enumerate(spec["rounds"]):
            for op in rnd["ops"]:
                t = self.apply(t, op, overlay, Text)
                ctx.cls("op-" + op[0])
            width = rnd["width"] or width
            overflow, justify, no_wrap = rnd["overflow"], rnd["justify"], rnd["no_wrap"]
            plain = t.plain
            if any(not is_space(c) and c not in overlay for c in plain):
                return  # an edit invented a character: not the subject here (C05)
            want_style = {c: GS.spec_view(GS.merge(spec["base"], *[PAL[s] for s in overlay[c]])) for c in plain if not is_space(c)}
            what = {"round": ri, "via": rnd["via"], "overflow": overflow, "justify": justify, "no_wrap": no_wrap, "tab_size": tab_size}
            joined = None
            if rnd["via"] == "wrap":
                spans_before = list(t.spans)
                out_lines, joined = observe_wrap(t, con, width, justify, overflow, no_wrap, tab_size)
                if t.plain != plain or list(t.spans) != spans_before:
                    ctx.violation("style", "C02/style/wrap-modified-its-input", "wrap() changed the text it was given: %r spans %r -> %r spans %r" % (plain, spans_before, t.plain, t.spans))
                    return
            else:
                out_lines = observe_render(t, width, justify, overflow, no_wrap, tab_size)
            broken = judge(ctx, plain, want_style, out_lines, width, justify, overflow, no_wrap or overflow == "ignore", tab_size, what, joined=joined)
            if broken is None:
                if ri:
                    # its own signature: a wrap that fails after the object was wrapped and edited (a fresh Text with these characters is the subject of `wrap`)
                    v = ctx.violations[-1]
                    v.sig = v.sig + "/after-edits"
                return
            if len(out_lines) >= 2 and any(w == width and p != plain for w, p in wrapped):
                ctx.nontrivial = True
                ctx.cls("same-width-after-change")
            wrapped.append((width, plain))


class WordTemplate(Part):
    name = "word-template"
    custom = True
    exhaustive = True
    rule = ("for every code point c of the Basic Multilingual Plane that is not white space (and every 64th astral one): the text 'ab foo' c 'bar' wrapped with fold overflow at exactly "
            "the width of the word 'foo' c 'bar' gives the lines 'ab' and 'foo' c 'bar' - the word moves to the next line whole, whatever character it contains; "
            "non-trivial = c is not alphanumeric")
    budget = {"quick": (16, 1), "thorough": (16, 1)}

    def run_shard(self, tier, shard, nshards, seed, stats, deadline, known):
        import time as _t
        from rich.text import Text
        from ..core import Ctx

        con = TV.console()
        ctx = Ctx()
        n = nt = 0
        bad = None
        cps = [cp for cp in range(0x21, 0x10000) if not 0xD800 <= cp <= 0xDFFF] + list(range(0x10000, 0x110000, 64 if tier == "quick" else 8))
        for i, cp in enumerate(cps):
            if i % nshards != shard:
                continue
            c = chr(cp)
            if c.isspace() or c in "\x07\x08\x0b\x0c\r":
                continue
            if not self.one(ctx, con, Text, c):
                bad = cp
                break
            n += 1
            if not c.isalnum():
                nt += 1
            if n % 4000 == 0 and _t.time() > deadline:
                stats.capped = True
                break
        stats.evaluations += n
        stats.nontrivial_count_distinct += nt
        if not stats.capped:
            stats.done += 1
        stats.samples.append((1, {"shard": shard, "code_points": len(cps) // nshards, "example": "ab foo\u00adbar"}, "range"))
        for v in ctx.violations:
            stats.found.setdefault(v.sig, {"spec": {"cp": bad}, "clause": v.clause, "detail": v.detail, "size": 1, "part": self.name})

    @staticmethod
    def one(ctx, con, Text, c):
        word = "foo" + c + "bar"
        width = OC.width(word)
        lines = [l.plain.rstrip(" ") for l in sut(Text("ab " + word).wrap, con, width, overflow="fold")]
        if lines != ["ab", word]:
            ctx.violation("break", "C02/break/word-template", "Text(%r) wrapped at %d cells (the width of its second word) gives %r; a word that fits the width is never broken" % ("ab " + word, width, lines))
            return False
        return True

    def replay(self, spec, ctx):
        from rich.text import Text

        if spec.get("cp") is not None:
            self.one(ctx, TV.console(), Text, chr(spec["cp"]))


class FitTemplate(Part):
    name = "fit-template"
    custom = True
    exhaustive = True
    CORES = ["resume", "ab", "\u6f22\u5b57x", "e"]
    ZERO = ["\u0301", "\u0301\u0300", "\u200d", "\ufe0f", "\u200b", ""]
    SPACES = [" ", "\u2028", "\u2029", "\x85", "\x1c", "\x1f", "\u3000", "\xa0", "\t"]
    rule = ("a word that ends in zero-width characters (combining marks, ZWJ, VS16, ZWSP) and exactly fills the width, followed by every run of 1-3 white-space characters over "
            "{space, LS, PS, NEL, FS, US, ideographic space, NBSP, tab} and another word; wrapped with fold overflow, justify default / left / full, through Text.wrap: the characters that are "
            "not white space all survive, in order, and the first line is the first word whole; non-trivial = the run contains a zero-width white-space character")
    budget = {"quick": (16, 1), "thorough": (16, 1)}

    def cases(self):
        import itertools

        runs = [r for n in (1, 2, 3) for r in itertools.product(range(len(self.SPACES)), repeat=n)]
        for ci in range(len(self.CORES)):
            for zi in range(len(self.ZERO)):
                for r in runs:
                    for j in (None, "left", "full"):
                        yield {"core": ci, "zero": zi, "run": list(r), "justify": j}

    def run_shard(self, tier, shard, nshards, seed, stats, deadline, known):
        from ..core import Ctx

        ctx = Ctx()
        n = nt = 0
        for i, case in enumerate(self.cases()):
            if i % nshards != shard:
                continue
            before = len(ctx.violations)
            self.one(ctx, case)
            n += 1
            if any(OC.width(self.SPACES[k]) == 0 for k in case["run"]):
                nt += 1
            for v in ctx.violations[before:]:
                if not known.match(v.sig):
                    stats.found.setdefault(v.sig, {"spec": case, "clause": v.clause, "detail": v.detail, "size": 1, "part": self.name})
        stats.evaluations += n
        stats.nontrivial_count_distinct += nt
        stats.done += 1
        stats.samples.append((1, {"shard": shard, "example": {"core": 0, "zero": 0, "run": [0, 1], "justify": None}}, "range"))

    def one(self, ctx, case):
        from rich.text import Text

        word = self.CORES[case["core"]] + self.ZERO[case["zero"]]
        run = "".join(self.SPACES[k] for k in case["run"])
        s = word + run + "attached"
        width = OC.width(word)
        lines = [l.plain for l in sut(Text(s).wrap, TV.console(), width, justify=case["justify"], tab_size=4)]
        kept = "".join(c for l in lines for c in l if not c.isspace())
        want = "".join(c for c in s if not c.isspace())
        if kept != want:
            ctx.violation("characters", "C02/chars/fit-template", "Text(%r) wrapped at %d cells (the width of its first word, justify=%r) gives %r: the characters that are not white space are %r, not %r" % (
                s, width, case["justify"], lines, kept, want))
        elif not lines or lines[0].strip() != word.strip():
            ctx.violation("break", "C02/break/fit-template", "Text(%r) wrapped at %d cells (the width of its first word, justify=%r) gives %r: the first word fits the width and is not kept whole on the first line" % (
                s, width, case["justify"], lines))

    def replay(self, spec, ctx):
        self.one(ctx, spec)


PARTS = [Wrap(), Rewrap(), WordTemplate(), FitTemplate()]
