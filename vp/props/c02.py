"""C02 - word wrapping keeps every character, in order, with its own style."""
from hypothesis import strategies as st

from ..core import Part, sut
from ..gen import styles as GS, chars as GC
from ..oracles import textview as TV, cells as OC

PROP_ID = "C02"
LEVEL = "exploration"
RULE = "Hypothesis: unique-character texts x span sets x width x justify x overflow x no_wrap x tab_size; every output character identifies its input offset"
ASSUMPTIONS = [
    "every non-whitespace character of a case is distinct, so an output character identifies its input offset (wrapping depends only on widths and whitespace classes)",
    "whitespace = str.isspace(); exotic line separators (\\x1c-\\x1e, \\x85, U+2028/9) and the characters Text strips are not in the alphabet - DESIGN 7.1/7.2",
    "padding added by justification and the ellipsis character are exempt from the style clause; interior whitespace is not compared",
    "tabs are expanded per line to the next multiple of tab_size (str.expandtabs semantics)",
]

PAL = GS.PALETTE


@st.composite
def unique_text(draw, max_tokens=12):
    n = draw(st.integers(0, max_tokens))
    pools = {"n": list(GC.UNIQ_NARROW), "w": list(GC.UNIQ_WIDE), "z": list(GC.UNIQ_ZERO)}
    idx = {"n": 0, "w": 0, "z": 0}
    out = []
    for _ in range(n):
        k = draw(st.integers(0, 11))
        if k <= 5:
            ln = draw(st.integers(1, 9))
            pat = draw(st.lists(st.sampled_from("nnnnnwwz"), min_size=ln, max_size=ln))
            for p in pat:
                out.append(pools[p][idx[p]])
                idx[p] += 1
        elif k <= 8:
            out.append(" " * draw(st.integers(1, 4)))
        elif k == 9:
            out.append("\n")
        elif k == 10:
            out.append("\t")
        else:
            out.append(draw(st.sampled_from(["\u3000", "\n\n", " \n", "\n "])))
    return "".join(out)


@st.composite
def case(draw):
    text = draw(unique_text())
    n = len(text)
    spans = []
    for _ in range(draw(st.integers(0, 8))):
        kind = draw(st.integers(0, 5))
        if kind == 0 and spans:
            a, b, s = spans[draw(st.integers(0, len(spans) - 1))]
            # remainder-equal partner: same end and style, later start (what Text.divide used to confuse)
            a2 = draw(st.integers(a, b))
            spans.append([a2, b, s])
        elif kind == 1 and spans:
            spans.append(list(spans[draw(st.integers(0, len(spans) - 1))]))  # identical duplicate
        else:
            a = draw(st.integers(0, n))
            b = draw(st.integers(a, n))
            spans.append([a, b, draw(st.integers(0, len(PAL) - 1))])
    width = draw(st.one_of(st.integers(2, 12), st.integers(2, 12), st.integers(2, 40), st.integers(2, 200)))
    return {
        "text": text,
        "spans": spans,
        "base": draw(st.one_of(st.none(), st.sampled_from(PAL))),
        "width": width,
        "justify": draw(st.sampled_from(["default", "left", "center", "right", "full"])),
        "overflow": draw(st.sampled_from(["fold", "fold", "fold", "crop", "ellipsis", "ignore"])),
        "no_wrap": draw(st.sampled_from([False, False, False, True])),
        "tab_size": draw(st.integers(1, 8)),
        "via": draw(st.sampled_from(["wrap", "wrap", "render"])),
        # the Text's own attributes disagree with the arguments given to wrap(): the arguments win
        "own": draw(st.one_of(st.none(), st.none(), st.tuples(st.sampled_from([None, "crop", "ellipsis", "fold", "ignore"]), st.sampled_from([None, "left", "center", "right", "full"]), st.sampled_from([None, False, True])).map(list))),
        "prelude": draw(st.one_of(st.none(), st.none(), st.tuples(st.sampled_from(["crop", "ellipsis", "fold", "ignore"]), st.sampled_from(["default", "left", "center", "right", "full"]), st.booleans(), st.booleans()).map(list))),
    }


def is_space(c):
    return c.isspace()


class Wrap(Part):
    name = "wrap"
    rule = ("texts of <=12 tokens (words of 1-9 unique narrow/wide/zero-width characters, runs of spaces, newlines, tabs, U+3000) x 0-8 spans from a "
            "conflicting palette (overlapping, nested, duplicated, empty, remainder-equal) x base style x width 2..200 (biased to 2..12) x justify x "
            "overflow x no_wrap x tab_size, through Text.wrap and through console rendering; non-trivial = >=2 output lines and (>=2 overlapping "
            "spans with different styles, or a word broken by folding, or a wide character ending a full line)")
    budget = {"quick": (16, 1500), "thorough": (16, 25000)}

    def strategy(self, tier):
        return case()

    def check(self, spec, ctx):
        from rich.text import Text, Span
        from rich.console import Console

        text = spec["text"]
        nonspace = [c for c in text if not is_space(c)]
        if len(set(nonspace)) != len(nonspace) or "…" in text:
            return
        width = spec["width"]
        spans = [Span(a, b, GS.build_style(PAL[s])) for a, b, s in spec["spans"]]
        base = GS.build_style(spec["base"]) if spec["base"] else ""
        own = spec.get("own") if spec["via"] == "wrap" else None
        if own:
            t = sut(Text, text, style=base, spans=list(spans), tab_size=spec["tab_size"], overflow=own[0], justify=own[1], no_wrap=own[2])
            ctx.cls("own-attributes-differ")
        else:
            t = sut(Text, text, style=base, spans=list(spans), tab_size=spec["tab_size"])
        con = TV.console()
        overflow, justify, no_wrap = spec["overflow"], spec["justify"], spec["no_wrap"]
        prelude = spec.get("prelude")
        if prelude:
            # history: the same text was wrapped before - another Text with the same characters at the same width under other options, and/or this very
            # object (wrapping must neither remember anything across calls nor modify the text it is given)
            other = sut(Text, text, tab_size=spec["tab_size"])
            sut(other.wrap, con, width, overflow=prelude[0], justify=prelude[1], tab_size=spec["tab_size"])
            if prelude[2]:
                spans_before = list(t.spans)
                plain_before = t.plain
                sut(t.wrap, con, width, overflow=prelude[0], justify=prelude[1], tab_size=spec["tab_size"], no_wrap=prelude[3])
                if t.plain != plain_before or list(t.spans) != spans_before:
                    ctx.violation("style", "C02/style/wrap-modified-its-input", "wrap() changed the text it was given: spans %r -> %r" % (spans_before, t.spans))
                    return
            ctx.cls("prelude")
        if spec["via"] == "wrap":
            lines = sut(t.wrap, con, width, justify=justify, overflow=overflow, tab_size=spec["tab_size"], no_wrap=no_wrap)
            out_lines = [TV.char_styles(l) for l in lines]
        else:
            t.justify, t.overflow, t.no_wrap = justify, overflow, no_wrap
            t.end = ""
            con2 = TV.console()
            old_tab = con2.tab_size
            con2.tab_size = spec["tab_size"]
            try:
                segs = list(sut(lambda: list(con2.render(t, con2.options.update(width=width)))))
            finally:
                con2.tab_size = old_tab
            flat = TV.seg_chars(segs)
            out_lines = [[]]
            for ch, sv in flat:
                if ch == "\n":
                    out_lines.append([])
                else:
                    out_lines[-1].append((ch, sv))
        ctx.cls("via-" + spec["via"], "overflow-" + overflow, "justify-" + justify)
        effective_no_wrap = no_wrap or overflow == "ignore"
        # expected per-offset style
        want_style = {}
        for i, c in enumerate(text):
            if not is_space(c):
                cover = [PAL[s] for a, b, s in spec["spans"] if a <= i < b]
                want_style[c] = GS.spec_view(GS.merge(spec["base"], *cover))
        # (2) every line fits
        if overflow != "ignore":
            for li, l in enumerate(out_lines):
                w = sum(OC.cw(c) for c, _ in l)
                if w > width:
                    ctx.violation("fits", "C02/fits/%s" % overflow, "line %d %r is %d cells wide, width %d (%r)" % (li, "".join(c for c, _ in l), w, width, spec))
                    return
        # (1) bijection on non-space characters
        got_ns = [c for l in out_lines for c, _ in l if not is_space(c) and c != "…"]
        if overflow == "fold" and not effective_no_wrap:
            if got_ns != nonspace:
                dropped = [c for c in nonspace if c not in got_ns]
                ctx.violation("bijection", "C02/bijection/%s" % ("dropped" if dropped else "reordered-or-duplicated"),
                              "non-space characters out %r != in %r (text %r width %d justify %s)" % ("".join(got_ns), "".join(nonspace), text, width, justify))
                return
        else:
            # whatever is output must be a subsequence of the input, no duplicates
            it = iter(nonspace)
            for c in got_ns:
                for d in it:
                    if d == c:
                        break
                else:
                    ctx.violation("bijection", "C02/bijection/invented", "output character %r out of order / not from the input %r" % (c, text))
                    return
        # (3) styles
        for li, l in enumerate(out_lines):
            for c, sv in l:
                if c in want_style and sv != want_style[c]:
                    ctx.violation("style", "C02/style/%s" % ("wrapped" if len(out_lines) > 1 else "single-line"),
                                  "character %r (input offset %d) carries %r, expected %r; text %r spans %r width %d" % (c, text.index(c), sv, want_style[c], text, spec["spans"], width))
                    return
        # (4) a word is broken only if it (plus indentation when first on its source line) is wider than the width
        line_of = {}
        for li, l in enumerate(out_lines):
            for c, _ in l:
                if c in want_style:
                    line_of.setdefault(c, li)
        broken_word = False
        if not effective_no_wrap:
            for src in text.split("\n"):
                exp = src.expandtabs(spec["tab_size"])
                i = 0
                first = True
                while i < len(exp):
                    if is_space(exp[i]):
                        i += 1
                        continue
                    j = i
                    while j < len(exp) and not is_space(exp[j]):
                        j += 1
                    word = exp[i:j]
                    ls = {line_of[c] for c in word if c in line_of}
                    if len(ls) > 1:
                        broken_word = True
                        need = OC.width(exp[:j]) if first else OC.width(word)
                        if need <= width:
                            ctx.violation("break", "C02/break/%s" % overflow, "word %r (needs %d cells%s) was split across lines at width %d; text %r" % (word, need, " with its indentation" if first else "", width, text))
                            return
                    first = False
                    i = j
        # non-trivial
        if len(out_lines) >= 2:
            overlapping = False
            sp = spec["spans"]
            for x in range(len(sp)):
                for y in range(x + 1, len(sp)):
                    if sp[x][2] != sp[y][2] and max(sp[x][0], sp[y][0]) < min(sp[x][1], sp[y][1]):
                        overlapping = True
            wide_end = any(l and OC.cw(l[-1][0]) == 2 and sum(OC.cw(c) for c, _ in l) == width for l in out_lines)
            if overlapping or broken_word or wide_end:
                ctx.nontrivial = True
                if broken_word:
                    ctx.cls("fold-broken-word")
                if wide_end:
                    ctx.cls("wide-at-line-end")
                if overlapping:
                    ctx.cls("overlapping-spans")



class WordTemplate(Part):
    name = "word-template"
    custom = True
    exhaustive = True
    rule = ("for every code point c of the Basic Multilingual Plane that is not white space (and every 64th astral one): the text 'ab foo' c 'bar' wrapped with fold overflow at exactly "
            "the width of the word 'foo' c 'bar' gives the lines 'ab' and 'foo' c 'bar' - the word moves to the next line whole, whatever character it contains; "
            "non-trivial = c is not alphanumeric")
    budget = {"quick": (16, 1), "thorough": (16, 1)}

    def run_shard(self, tier, shard, nshards, seed, stats, deadline, known):
        import time as _t
        from rich.text import Text
        from ..core import Ctx

        con = TV.console()
        ctx = Ctx()
        n = nt = 0
        bad = None
        cps = [cp for cp in range(0x21, 0x10000) if not 0xD800 <= cp <= 0xDFFF] + list(range(0x10000, 0x110000, 64 if tier == "quick" else 8))
        for i, cp in enumerate(cps):
            if i % nshards != shard:
                continue
            c = chr(cp)
            if c.isspace() or c in "\x07\x08\x0b\x0c\r":
                continue
            if not self.one(ctx, con, Text, c):
                bad = cp
                break
            n += 1
            if not c.isalnum():
                nt += 1
            if n % 4000 == 0 and _t.time() > deadline:
                stats.capped = True
                break
        stats.evaluations += n
        stats.nontrivial_count_distinct += nt
        if not stats.capped:
            stats.done += 1
        stats.samples.append((1, {"shard": shard, "code_points": len(cps) // nshards, "example": "ab foo\u00adbar"}, "range"))
        for v in ctx.violations:
            stats.found.setdefault(v.sig, {"spec": {"cp": bad}, "clause": v.clause, "detail": v.detail, "size": 1, "part": self.name})

    @staticmethod
    def one(ctx, con, Text, c):
        word = "foo" + c + "bar"
        width = OC.width(word)
        lines = [l.plain.rstrip(" ") for l in sut(Text("ab " + word).wrap, con, width, overflow="fold")]
        if lines != ["ab", word]:
            ctx.violation("break", "C02/break/word-template", "Text(%r) wrapped at %d cells (the width of its second word) gives %r; a word that fits the width is never broken" % ("ab " + word, width, lines))
            return False
        return True

    def replay(self, spec, ctx):
        from rich.text import Text

        if spec.get("cp") is not None:
            self.one(ctx, TV.console(), Text, chr(spec["cp"]))


class FitTemplate(Part):
    name = "fit-template"
    custom = True
    exhaustive = True
    CORES = ["resume", "ab", "\u6f22\u5b57x", "e"]
    ZERO = ["\u0301", "\u0301\u0300", "\u200d", "\ufe0f", "\u200b", ""]
    SPACES = [" ", "\u2028", "\u2029", "\x85", "\x1c", "\x1f", "\u3000", "\xa0", "\t"]
    rule = ("a word that ends in zero-width characters (combining marks, ZWJ, VS16, ZWSP) and exactly fills the width, followed by every run of 1-3 white-space characters over "
            "{space, LS, PS, NEL, FS, US, ideographic space, NBSP, tab} and another word; wrapped with fold overflow, justify default / left / full, through Text.wrap: the characters that are "
            "not white space all survive, in order, and the first line is the first word whole; non-trivial = the run contains a zero-width white-space character")
    budget = {"quick": (16, 1), "thorough": (16, 1)}

    def cases(self):
        import itertools

        runs = [r for n in (1, 2, 3) for r in itertools.product(range(len(self.SPACES)), repeat=n)]
        for ci in range(len(self.CORES)):
            for zi in range(len(self.ZERO)):
                for r in runs:
                    for j in (None, "left", "full"):
                        yield {"core": ci, "zero": zi, "run": list(r), "justify": j}

    def run_shard(self, tier, shard, nshards, seed, stats, deadline, known):
        from ..core import Ctx

        ctx = Ctx()
        n = nt = 0
        for i, case in enumerate(self.cases()):
            if i % nshards != shard:
                continue
            before = len(ctx.violations)
            self.one(ctx, case)
            n += 1
            if any(OC.width(self.SPACES[k]) == 0 for k in case["run"]):
                nt += 1
            for v in ctx.violations[before:]:
                if not known.match(v.sig):
                    stats.found.setdefault(v.sig, {"spec": case, "clause": v.clause, "detail": v.detail, "size": 1, "part": self.name})
        stats.evaluations += n
        stats.nontrivial_count_distinct += nt
        stats.done += 1
        stats.samples.append((1, {"shard": shard, "example": {"core": 0, "zero": 0, "run": [0, 1], "justify": None}}, "range"))

    def one(self, ctx, case):
        from rich.text import Text

        word = self.CORES[case["core"]] + self.ZERO[case["zero"]]
        run = "".join(self.SPACES[k] for k in case["run"])
        s = word + run + "attached"
        width = OC.width(word)
        lines = [l.plain for l in sut(Text(s).wrap, TV.console(), width, justify=case["justify"], tab_size=4)]
        kept = "".join(c for l in lines for c in l if not c.isspace())
        want = "".join(c for c in s if not c.isspace())
        if kept != want:
            ctx.violation("characters", "C02/chars/fit-template", "Text(%r) wrapped at %d cells (the width of its first word, justify=%r) gives %r: the characters that are not white space are %r, not %r" % (
                s, width, case["justify"], lines, kept, want))
        elif not lines or lines[0].strip() != word.strip():
            ctx.violation("break", "C02/break/fit-template", "Text(%r) wrapped at %d cells (the width of its first word, justify=%r) gives %r: the first word fits the width and is not kept whole on the first line" % (
                s, width, case["justify"], lines))

    def replay(self, spec, ctx):
        self.one(ctx, spec)


PARTS = [Wrap(), WordTemplate(), FitTemplate()]
