"""C09 - measurements are sound bounds on what rendering produces."""
import io
from hypothesis import strategies as st

from ..core import Part, sut
from ..gen import trees as GT, chars as GC
from ..oracles import cells as OC
from . import c01 as C01

PROP_ID = "C09"
LEVEL = "exploration"
RULE = "Hypothesis: C01 trees (plus cast / no-measure renderables) x available width 0..200; measure-vs-render differential with the table-scan width oracle; exact formulas for text"
ASSUMPTIONS = [
    "same option domain and structural minimum as C01; the measurement is taken on a 200-cell console with the available width passed explicitly, "
    "rendering 'at v' means on a console v cells wide",
    "rendering at the measured minimum/maximum is only required to fit for values at or above the structural minimum (as the statement says)",
    "text clauses: no tabs, newline is the only line separator (DESIGN 7.1); words are split at str.isspace() whitespace",
]


class Measure(Part):
    name = "measure"
    rule = ("trees as C01 x available width A in 0..200 (biased to small values and to the structural minimum +-3): 0 <= minimum <= maximum <= A, and "
            "rendering at the reported minimum and maximum (when >= structural minimum) yields no line wider than that value; "
            "non-trivial = a container with >= 2 children, or A below the natural width, or wide characters")
    budget = {"quick": (16, 300), "thorough": (16, 6000)}
    chunk = 150

    def strategy(self, tier):
        a = st.one_of(st.integers(0, 12), st.integers(0, 40), st.integers(0, 200), st.sampled_from([-3, -1, 0, 1, 2, 3]).map(lambda d: ["rel", d]))
        from . import c14 as C14   # registers the builders of the extra leaves

        # overflow="ignore" is an explicit request to exceed the width (not generated for texts either in this mode)
        extra = st.one_of(C14.pretty_leaf(allow_ignore=False), C14.syntax_leaf(), C14.other_leaves("spinner"))
        return st.builds(lambda t, a, e: {"tree": t, "A": a, "enc": e}, st.one_of(GT.node(0, "free"), GT.node(0, "free"), GT.node(0, "free", extra=extra), extra), a, st.sampled_from(C01.ENCODINGS))

    def check(self, spec, ctx):
        from rich.console import Console
        from rich.measure import Measurement

        tree = spec["tree"]
        smin = GT.struct_min(tree)
        A = spec["A"]
        if isinstance(A, list):
            A = max(0, smin + A[1])
        r = sut(GT.build, tree)
        enc = spec.get("enc")
        con = sut(Console, file=C01.EncFile(enc) if enc else io.StringIO(), width=200, height=25, color_system="truecolor", force_terminal=True, legacy_windows=False, _environ={})
        if enc:
            ctx.cls("encoding-" + enc)
        m = sut(Measurement.get, con, r, A)
        lo, hi = m.minimum, m.maximum
        if not (0 <= lo <= hi <= A):
            ctx.violation("bounds", "C09/bounds/%s" % tree["k"], "Measurement.get(..., %d) = (%r, %r) violates 0 <= min <= max <= available; tree=%r" % (A, lo, hi, tree))
            return
        natural = sut(Measurement.get, con, r, 200).maximum
        for label, v in (("maximum", hi), ("minimum", lo)):
            if v >= max(1, smin):
                r2 = sut(GT.build, tree)
                _, lines = C01.render_lines(r2, v, encoding=enc)
                for i, ln in enumerate(lines):
                    w = OC.width(ln)
                    if w > v:
                        culprit = "pbar-unterminated" if GT.has_unterminated_sequence(tree) else tree["k"]
                        ctx.violation("render-at-" + label, "C09/render/%s-%s" % (label, culprit),
                                      "measured (%d, %d) with %d available; rendered at the %s %d, line %d is %d cells: %r\ntree=%r" % (lo, hi, A, label, v, i, w, ln, tree))
                        return
        kinds = GT.kinds_of(tree)
        multi = (tree["k"] == "table" and len(tree["cols"]) >= 2) or (tree["k"] in ("group", "columns") and len(tree.get("children", tree.get("items", []))) >= 2) or tree["k"] == "tree"
        if multi or A < natural or GT.has_wide(tree):
            ctx.nontrivial = True
        if A < natural:
            ctx.cls("A-below-natural")
        if A < smin:
            ctx.cls("A-below-structural-minimum")
        for k in kinds:
            ctx.cls("has-" + k)


class TextMeasure(Part):
    name = "text"
    rule = ("tab-free texts (words of narrow/wide/zero-width characters, runs of spaces, newlines, U+3000) x A in 0..200: minimum == min(A, widest word), "
            "maximum == min(A, widest line), and wrapping at the unclamped maximum gives exactly the newline-split lines; non-trivial = >= 2 lines and a wide character")
    budget = {"quick": (8, 1500), "thorough": (16, 15000)}

    def strategy(self, tier):
        # paragraphs of several hundred characters with sentence gaps, indentation and trailing spaces (long strings take other measuring paths)
        para = st.builds(lambda unit, n, lead, nl: lead + (unit * 400)[:n] + ("\nshort line" if nl else ""), st.sampled_from(["word.  ", "ab  cd ", GC.WIDE[0] + GC.WIDE[1] + "  x ", "a b   ", "x" * 30 + " "]),
                         st.one_of(st.integers(60, 140), st.integers(500, 1100)), st.sampled_from(["", "", "    "]), st.booleans())
        t = st.one_of(GC.words_text(8), GC.words_text(8), GC.mixed_text(30, newlines=True), st.sampled_from(["", " ", "\n", "a", " a ", "a\n", "\na", GC.WIDE[0] + "　" + "b"]), para,
                      # white space that is not a line end for rich (str.splitlines() would break there): NEL, FS, LS, PS, NBSP, thin space
                      st.lists(st.one_of(st.sampled_from(["ab", "cde", "x", GC.WIDE[0], "fghij"]), st.sampled_from(["\x85", "\x1c", "\u2028", "\u2029", "\xa0", "\u2009", "\u3000", " ", "\n"])), min_size=1, max_size=8).map("".join),
                      # words followed by white-space runs that mix ordinary spaces with zero-width white space (FS .. US, NEL, LS, PS) and hang over the width at a wrap point
                      st.lists(st.tuples(st.sampled_from(["ab", "cde", "x", GC.WIDE[0] * 2, "fghij", "klmnopq"]), st.lists(st.sampled_from([" ", " ", "\x1c", "\x1f", "\x85", "\u2028", "\u2029", "\u3000"]), min_size=1, max_size=3).map("".join)).map("".join),
                               min_size=1, max_size=6).map("".join))
        return st.builds(lambda s, a, j, o: {"s": s, "A": a, "justify": j, "other": o}, t, st.one_of(st.integers(0, 12), st.integers(0, 200), st.integers(0, 2000)), st.sampled_from([None, "left", "full", "center"]), st.one_of(st.none(), GC.mixed_text(40, newlines=True)))

    def check(self, spec, ctx):
        from rich.console import Console
        from rich.measure import Measurement
        from rich.text import Text

        s = spec["s"]
        A = spec["A"]
        con = sut(Console, file=io.StringIO(), width=200, color_system=None, _environ={})
        t = sut(Text, s, justify=spec["justify"])
        m = sut(Measurement.get, con, t, A)
        if not (0 <= m.minimum <= m.maximum <= A):
            ctx.violation("bounds", "C09/bounds/text", "Measurement.get(Text(%r), %d) = %r" % (s, A, tuple(m)))
            return
        words = s.split()
        if not words or A < 1:
            return
        widest_word = max(OC.width(w) for w in words)
        lines = s.split("\n")
        widest_line = max(OC.width(l) for l in lines)
        if m.minimum != min(A, widest_word):
            ctx.violation("text-minimum", "C09/text/minimum", "Text(%r) measured minimum %d with %d available; widest word is %d cells" % (s, m.minimum, A, widest_word))
            return
        if m.maximum != min(A, widest_line):
            ctx.violation("text-maximum", "C09/text/maximum", "Text(%r) measured maximum %d with %d available; widest line is %d cells" % (s, m.maximum, A, widest_line))
            return
        full = sut(Measurement.get, con, t, 10**6).maximum
        if full != widest_line:
            ctx.violation("text-maximum", "C09/text/maximum-unclamped", "Text(%r) unclamped maximum %d; widest line is %d cells" % (s, full, widest_line))
            return
        if full >= 1:
            wrapped = [l.plain.rstrip() for l in sut(Text(s).wrap, con, full)]
            want = [l.rstrip() for l in lines]
            if s.endswith("\n") and False:
                want = want[:-1]
            if wrapped != want:
                ctx.violation("text-no-wrap-at-maximum", "C09/text/wrapped-at-maximum", "Text(%r) given its maximum %d wraps into %r, the lines are %r" % (s, full, wrapped, want))
                return
        # the statement's own clause on the text: rendered (top level, default fold) at the reported minimum and maximum no line is wider than that value
        has_wide = any(OC.cw(c) == 2 for c in s)
        for label, v in (("minimum", m.minimum), ("maximum", m.maximum)):
            if v >= (2 if has_wide else 1):
                conv = sut(Console, file=io.StringIO(), width=v, color_system=None, _environ={})
                segs = sut(lambda: list(conv.render(Text(s, justify=spec["justify"]), conv.options)))
                for i, ln in enumerate("".join(g.text for g in segs if not g.is_control).split("\n")):
                    if OC.width(ln) > v:
                        ctx.violation("render-at-" + label, "C09/text/render-%s" % label, "Text(%r, justify=%r) measured %r; rendered at the %s %d, line %d is %d cells: %r" % (s, spec["justify"], tuple(m), label, v, i, OC.width(ln), ln))
                        return
        # history: the same Text object gets other content of the same length (text.plain = ...) and is measured again
        other = spec.get("other")
        if other is not None and len(other) >= len(s) > 0:
            s2 = other[:len(s)]
            if s2.split() and "\t" not in s2:
                t.plain = s2
                m2 = sut(Measurement.get, con, t, A)
                w2 = max(OC.width(w) for w in s2.split())
                l2 = max(OC.width(l) for l in s2.split("\n"))
                if (m2.minimum, m2.maximum) != (min(A, w2), min(A, l2)):
                    ctx.violation("text-minimum", "C09/text/stale-after-edit", "Text measured (%d, %d) after its content became %r; widest word %d, widest line %d (available %d; it was %r before)" % (m2.minimum, m2.maximum, s2, w2, l2, A, s))
                    return
                ctx.cls("remeasured-after-edit")
        if len(lines) >= 2 and any(OC.cw(c) == 2 for c in s):
            ctx.nontrivial = True


class StrMeasure(Part):
    name = "strings"
    rule = ("plain strings (words, emoji codes such as :smile:, markup tags) measured on a sequence of 2-3 consoles that differ in their emoji / markup settings: each "
            "measurement must equal that of the Text the same console makes of the string (render_str), whatever was measured before; non-trivial = the string has an "
            "emoji code or a tag and the consoles differ")
    budget = {"quick": (4, 500), "thorough": (16, 4000)}

    def strategy(self, tier):
        piece = st.sampled_from([":smile:", ":sparkles:", ":no_such_emoji:", "[bold]", "[/bold]", "word", "a", " ", "  ", "\n", GC.WIDE[0], ":", "[red]x[/red]"])
        s = st.lists(piece, min_size=1, max_size=6).map("".join)
        cfg = st.tuples(st.booleans(), st.booleans()).map(list)
        return st.builds(lambda s, cfgs, a: {"s": s, "consoles": cfgs, "A": a}, s, st.lists(cfg, min_size=2, max_size=3), st.integers(1, 60))

    def check(self, spec, ctx):
        from rich.console import Console
        from rich.measure import Measurement
        from rich.errors import MarkupError

        s = spec["s"]
        differ = len({tuple(c) for c in spec["consoles"]}) > 1
        for emoji, markup in spec["consoles"]:
            con = sut(Console, file=io.StringIO(), width=80, color_system=None, emoji=emoji, markup=markup, _environ={})
            try:
                text = con.render_str(s)
            except MarkupError:
                return
            except Exception as e:  # noqa
                from ..core import SutError
                raise SutError(e)
            want = sut(Measurement.get, con, text, spec["A"])
            got = sut(Measurement.get, con, s, spec["A"])
            if tuple(got) != tuple(want):
                ctx.violation("bounds", "C09/strings/depends-on-earlier-measurement", "Measurement.get(console(emoji=%r, markup=%r), %r, %d) = %r, but the Text this console makes of it measures %r" % (emoji, markup, s, spec["A"], tuple(got), tuple(want)))
                return
        if differ and (":" in s or "[" in s):
            ctx.nontrivial = True



class MarkdownLists(Part):
    name = "markdown-lists"
    rule = ("Markdown documents consisting of one ordered or bullet list (1-5 short items, ordered lists starting at 0 .. 99999) rendered with 12..100 cells available: the measurement "
            "is within bounds and no rendered line is wider than what was available (a Markdown reports (0, available)); non-trivial = an ordered list whose last number has more "
            "digits than its item count")
    budget = {"quick": (4, 200), "thorough": (16, 2000)}

    def strategy(self, tier):
        item = st.lists(st.sampled_from(["What", "a", "great", "season", "x", "alpha beta", "漢字"]), min_size=1, max_size=6).map(" ".join)
        return st.builds(lambda start, items, w: {"start": start, "items": items, "W": w}, st.one_of(st.none(), st.sampled_from([0, 1, 9, 98, 99, 250, 999, 1986, 99999]), st.integers(0, 1200)),
                         st.lists(item, min_size=1, max_size=5), st.integers(12, 100))

    def check(self, spec, ctx):
        from rich.console import Console
        from rich.markdown import Markdown
        from rich.measure import Measurement

        if spec["start"] is None:
            src = "\n".join("- " + x for x in spec["items"])
        else:
            src = "\n".join("%d. %s" % (spec["start"] + i, x) for i, x in enumerate(spec["items"]))
        W = spec["W"]
        con = sut(Console, file=io.StringIO(), width=200, color_system=None, force_terminal=False, _environ={})
        md = sut(Markdown, src)
        m = sut(Measurement.get, con, md, W)
        if not (0 <= m.minimum <= m.maximum <= W):
            ctx.violation("bounds", "C09/bounds/markdown", "Measurement.get(Markdown(%r), %d) = %r" % (src, W, tuple(m)))
            return
        _, lines = C01.render_lines(sut(Markdown, src), m.maximum)
        for i, ln in enumerate(lines):
            if OC.width(ln) > m.maximum:
                ctx.violation("render-at-maximum", "C09/render/markdown-list", "Markdown(%r) measured %r; rendered at %d, line %d is %d cells: %r" % (src, tuple(m), m.maximum, i, OC.width(ln), ln))
                return
        if spec["start"] is not None and len(str(spec["start"] + len(spec["items"]))) > len(str(len(spec["items"]) + 1)):
            ctx.nontrivial = True


class EditedObjects(Part):
    name = "edited-objects"
    rule = ("a renderable with public mutable state - Syntax (code / start_line replaced), Table (add_row / add_column), Tree (add), Columns (add_renderable), Panel (renderable / title "
            "replaced), Padding (renderable replaced) - is measured and rendered once, then edited through its public API so that it needs more room (more digits in the line-number "
            "gutter, a longer cell / label / item / title), then measured again with A cells available: the second measurement is within bounds and rendering the edited object at the "
            "reported maximum (and minimum, when at or above the structural need of the widest word) yields no line wider than that value; non-trivial = the edit made the object wider")
    budget = {"quick": (4, 300), "thorough": (16, 3000)}

    WORDS = ["a", "bc", "def", "line", "value", "x" * 9, "\u6f22\u5b57", "alpha_beta_gamma", "n" * 17]

    def strategy(self, tier):
        word = st.sampled_from(self.WORDS)
        phrase = st.lists(word, min_size=1, max_size=4).map(" ".join)
        kind = st.sampled_from(["syntax-code", "syntax-code", "syntax-start", "table-row", "table-column", "tree", "columns", "panel-child", "panel-title", "padding"])
        return st.builds(lambda k, n1, n2, start, a, p1, p2, first, ln: {"kind": k, "n1": n1, "n2": n2, "start": start, "A": a, "p1": p1, "p2": p2, "first": first, "line_numbers": ln},
                         kind, st.integers(1, 12), st.sampled_from([10, 11, 12, 20, 99, 100, 101, 120, 1000]), st.sampled_from([1, 1, 2, 5, 90, 95, 990]), st.integers(8, 80), phrase, phrase,
                         st.sampled_from(["measure", "render", "both"]), st.sampled_from([True, True, False]))

    def check(self, spec, ctx):
        from rich.console import Console
        from rich.measure import Measurement
        from rich.syntax import Syntax
        from rich.table import Table
        from rich.tree import Tree
        from rich.columns import Columns
        from rich.panel import Panel
        from rich.padding import Padding

        k, A = spec["kind"], spec["A"]
        p1, p2 = spec["p1"], spec["p2"] + " " + spec["p1"]
        code = lambda n: "\n".join("v%d = %d" % (i, i) for i in range(n)) + "\n"
        need = max(OC.width(w) for w in (p1 + " " + p2).split())
        if k.startswith("syntax"):
            obj = sut(Syntax, code(spec["n1"]), "python", line_numbers=spec["line_numbers"], start_line=spec["start"] if k == "syntax-code" else 1)
            need = 12   # the gutter (up to 8 cells for five-digit numbers) and a few cells of code: the structural need of a numbered listing
        elif k.startswith("table"):
            obj = sut(Table, "h", "k")
            sut(obj.add_row, p1, "1")
        elif k == "tree":
            obj = sut(Tree, p1)
        elif k == "columns":
            obj = sut(Columns, [p1])
        elif k.startswith("panel"):
            obj = sut(Panel, p1, title="t", expand=False)
        else:
            obj = sut(Padding, p1, (0, 1))
        con = sut(Console, file=io.StringIO(), width=200, height=25, color_system="truecolor", force_terminal=True, legacy_windows=False, _environ={})
        if spec["first"] in ("measure", "both"):
            m0 = sut(Measurement.get, con, obj, A)
        if spec["first"] in ("render", "both"):
            sut(lambda: list(con.render(obj, con.options.update(width=A))))
        before = sut(Measurement.get, con, obj, 200).maximum
        # the edit
        if k == "syntax-code":
            obj.code = code(spec["n2"])
        elif k == "syntax-start":
            obj.start_line = max(spec["start"], 2) * 50
        elif k == "table-row":
            sut(obj.add_row, p2, "22")
        elif k == "table-column":
            sut(obj.add_column, p2)
        elif k == "tree":
            sut(sut(obj.add, p2).add, p2 + " z")
        elif k == "columns":
            sut(obj.add_renderable, p2)
        elif k == "panel-child":
            obj.renderable = p2
        elif k == "panel-title":
            obj.title = p2.replace(" ", "_")
        else:
            obj.renderable = p2
        m = sut(Measurement.get, con, obj, A)
        lo, hi = m.minimum, m.maximum
        desc = "%s (first use: %s; A=%d; %r -> %r; n1=%d n2=%d start=%d line_numbers=%r)" % (k, spec["first"], A, p1, p2, spec["n1"], spec["n2"], spec["start"], spec["line_numbers"])
        if not (0 <= lo <= hi <= A):
            ctx.violation("bounds", "C09/edited/bounds", "after the edit Measurement.get(..., %d) = (%r, %r); %s" % (A, lo, hi, desc))
            return
        after = sut(Measurement.get, con, obj, 200).maximum
        frame = {"table-row": 7, "table-column": 10, "tree": 8, "columns": 0, "panel-child": 4, "panel-title": 4, "padding": 2}.get(k, 0)
        for label, v in (("maximum", hi), ("minimum", lo)):
            if v >= max(1, need + frame):
                con2 = sut(Console, file=io.StringIO(), width=v, height=25, color_system="truecolor", force_terminal=True, legacy_windows=False, _environ={})
                segs = sut(lambda: list(con2.render(obj, con2.options)))
                for i, ln in enumerate("".join(sg.text for sg in segs if not sg.is_control).split("\n")):
                    if OC.width(ln) > v:
                        ctx.violation("render-at-" + label, "C09/edited/render-%s" % k, "after the edit measured (%d, %d); rendered at the %s %d, line %d is %d cells: %r; %s" % (lo, hi, label, v, i, OC.width(ln), ln, desc))
                        return
        ctx.cls(k)
        if after > before:
            ctx.nontrivial = True


PARTS = [Measure(), TextMeasure(), StrMeasure(), MarkdownLists(), EditedObjects()]
