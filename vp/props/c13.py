"""C13 - cell-width arithmetic and line shaping are exact and history-independent."""
import time
from hypothesis import strategies as st

from ..core import Part, sut, Ctx
from ..oracles import cells as OC
from ..gen import chars, styles as GS

PROP_ID = "C13"
LEVEL = "exploration"
RULE = "Hypothesis-generated specs + exhaustive code point sweep; distinctness = blake2b of canonical JSON spec"
ASSUMPTIONS = [
    "the width table rich ships (rich/_cell_widths.py) is the reference for 'the Unicode width table'; it is read by a linear scan, "
    "checked for well-formedness and spot-checked against stable Unicode blocks",
    "set_shape is exercised with height >= len(lines) or None (DESIGN 7.15)",
    "a style of None and the null style are the same observable style",
]


def table_run_text(max_size=24, min_cp=0):
    """Strings that stay in the neighbourhood of one row of the width table (and of the row after it), the way text stays within one script: each character is a
    code point just below the row, at / just after its first code point, at / just before its last one, or in the gap just above it (offsets 0..2), or a printable ASCII
    character.  These are the strings on which anything remembered from one character to the next (a run, a range, a previous row) meets the row boundaries.
    Code points below `min_cp`, surrogates and out-of-range values are replaced by 'a'."""
    from rich._cell_widths import CELL_WIDTHS as rows

    def build(i, picks):
        out = []
        for dr, kind, off in picks:
            if kind == 4:
                out.append("ab x~"[off + 2 * dr])
                continue
            start, end, _ = rows[min(i + dr, len(rows) - 1)]
            cp = (start - 1 - off, min(end, start + off), max(start, end - off), end + 1 + off)[kind]
            if cp < min_cp or cp > 0x10FFFF or 0xD800 <= cp <= 0xDFFF:
                cp = 0x61
            out.append(chr(cp))
        return "".join(out)

    pick = st.tuples(st.sampled_from([0, 0, 0, 1]), st.sampled_from([0, 1, 2, 2, 3, 3, 4]), st.sampled_from([0, 0, 0, 1, 2]))
    return st.builds(build, st.integers(0, len(rows) - 1), st.lists(pick, min_size=1, max_size=max_size))


# --------------------------------------------------------------------------------------------- (a)
FOLLOWERS = ["\ufe0f", "\ufe0e", "\u200d", "\u0301", "\u20e3"]


class CodePoints(Part):
    name = "codepoints"
    custom = True
    exhaustive = True
    rule = ("all 1,114,112 code points (sharded), each queried twice (cold then after the whole shard, i.e. after LRU eviction) followed by each of VS16 / VS15 / ZWJ / U+0301 / U+20E3 (cell_len of the pair), and once inside a Segment ('a' + c + 'b': Segment.cell_length; "
            "adjust_line_length for all zero-width and every 17th wide code point); "
            "non-trivial = code point outside the ASCII shortcut that lies in a table row (width != default)")
    budget = {"quick": (16, 1), "thorough": (16, 1)}

    def run_shard(self, tier, shard, nshards, seed, stats, deadline, known):
        from rich import cells as RC
        from rich._cell_widths import CELL_WIDTHS

        W = OC.table()
        ctx = Ctx()
        if shard == 0:
            # table well-formedness + spot ranges
            prev_end = -1
            for row in CELL_WIDTHS:
                start, end, w = row
                if not (start <= end and start > prev_end and w in (-1, 0, 1, 2)):
                    ctx.violation("table", "C13/table/malformed", "row %r after end %d" % (row, prev_end))
                    break
                prev_end = end
            spots = [(0x20, 0x7E, 1), (0x4E00, 0x9FA5, 2), (0xAC00, 0xD7A3, 2), (0x300, 0x36F, 0), (0x3041, 0x3096, 2), (0xFF01, 0xFF5E, 2), (0xA1, 0xFF, 1), (0x1F600, 0x1F64F, 2)]
            for a, b, w in spots:
                for cp in range(a, b + 1):
                    if cp == 0xAD:
                        continue
                    if W[cp] != w:
                        ctx.violation("table", "C13/table/spot", "U+%04X has table width %d, Unicode block says %d" % (cp, W[cp], w))
                        break
        lo = (0x110000 * shard) // nshards
        hi = (0x110000 * (shard + 1)) // nshards
        get = RC.get_character_cell_size
        n = 0
        nt = 0
        bad = None
        for rnd in (0, 1):
            rng = range(lo, hi) if rnd == 0 else range(hi - 1, lo - 1, -1)
            for cp in rng:
                got = sut(get, chr(cp))
                n += 1
                if got != W[cp]:
                    bad = (cp, got, W[cp], rnd)
                    break
                if rnd == 0 and W[cp] != 1:
                    nt += 1
            if bad:
                break
        # whole-string measurements over a window of this shard (uncached long path and cached short path)
        if not bad:
            for base in range(lo, hi, 4099):
                s = "".join(chr(c) for c in range(base, min(base + 70, hi)) if not 0xD800 <= c <= 0xDFFF)
                for t in (s, s[:40]):
                    n += 1
                    if sut(RC.cell_len, t) != OC.width(t):
                        bad = (base, sut(RC.cell_len, t), OC.width(t), "str")
                        break
                if bad:
                    break
        # the segment layer measures through its own entry point: every code point inside an otherwise plain segment, and shaping of the non-default ones
        if not bad:
            from rich.segment import Segment

            for cp in range(lo, hi):
                if 0xD800 <= cp <= 0xDFFF or W[cp] < 0:
                    continue
                # the width of a string is the sum of its characters' widths whatever follows a character (variation selectors, joiners, combining marks, keycap)
                for fo in FOLLOWERS:
                    n += 1
                    pair = chr(cp) + fo
                    if sut(RC.cell_len, pair) != W[cp] + OC.width(fo):
                        bad = (cp, "cell_len(%r)=%r" % (pair, RC.cell_len(pair)), W[cp] + OC.width(fo), "pair")
                        break
                if bad:
                    break
                seg = Segment("a" + chr(cp) + "b")
                n += 1
                if sut(lambda: seg.cell_length) != 2 + W[cp]:
                    bad = (cp, seg.cell_length - 2, W[cp], "segment")
                    break
                if W[cp] != 1 and (W[cp] == 0 or cp % 17 == 0):
                    for length in (2, 3, 5):
                        out = sut(Segment.adjust_line_length, [seg], length, None, True)
                        n += 1
                        if sum(OC.width(x.text) for x in out) != length:
                            bad = (cp, "adjust_line_length(%d) -> %r" % (length, [x.text for x in out]), W[cp], "segment-shape")
                            break
                    if bad:
                        break
        if bad:
            ctx.violation("lookup", "C13/lookup/%s" % ("segment" if str(bad[3]).startswith("segment") else ("pair" if bad[3] == "pair" else "codepoint")), "U+%04X: rich says %r, table scan says %r (pass %r)" % bad)
            spec = {"cp": bad[0]}
        else:
            spec = {"cp": lo}
        stats.evaluations += n
        stats.nontrivial_count_distinct += nt
        stats.done += 1
        stats.samples.append((1, {"range": [lo, hi], "queried": n}, "range"))
        for v in ctx.violations:
            stats.found[v.sig] = {"spec": spec, "clause": v.clause, "detail": v.detail, "size": 1, "part": self.name}

    def replay(self, spec, ctx):
        from rich import cells as RC

        cp = spec["cp"]
        got = sut(RC.get_character_cell_size, chr(cp))
        if got != OC.table()[cp]:
            ctx.violation("lookup", "C13/lookup/codepoint", "U+%04X: rich %r, table %r" % (cp, got, OC.table()[cp]))
        from rich.segment import Segment

        if not 0xD800 <= cp <= 0xDFFF:
            for fo in FOLLOWERS:
                pair = chr(cp) + fo
                if sut(RC.cell_len, pair) != OC.width(pair):
                    ctx.violation("lookup", "C13/lookup/pair", "cell_len(%r) = %r, the characters' widths sum to %r" % (pair, RC.cell_len(pair), OC.width(pair)))
        if not 0xD800 <= cp <= 0xDFFF and OC.table()[cp] >= 0:
            seg = Segment("a" + chr(cp) + "b")
            if sut(lambda: seg.cell_length) != 2 + OC.table()[cp]:
                ctx.violation("lookup", "C13/lookup/segment", "Segment('a' + U+%04X + 'b').cell_length = %r, table says %r" % (cp, seg.cell_length, 2 + OC.table()[cp]))
            for length in (2, 3, 5):
                out = sut(Segment.adjust_line_length, [seg], length, None, True)
                if sum(OC.width(x.text) for x in out) != length:
                    ctx.violation("lookup", "C13/lookup/segment", "adjust_line_length of 'a' + U+%04X + 'b' to %d -> %r" % (cp, length, [x.text for x in out]))


# --------------------------------------------------------------------------------------------- (b)
class History(Part):
    name = "history"
    rule = ("histories of cell_len queries (and set_cell_size calls) over a pool of mixed-width strings, arbitrary Unicode strings and strings that stay around one row of the width table, with repeats, interleaved with floods of >4096 distinct strings / code points "
            "(LRU eviction) and >64-char strings; non-trivial = a string was queried again after a flood and contains a non-narrow character")
    budget = {"quick": (8, 100), "thorough": (16, 600)}
    chunk = 100

    def strategy(self, tier):
        # lengths around the cache's 64-character limit and its multiples
        boundary = st.builds(lambda unit, n, cut: (unit * 300)[:n - cut], st.sampled_from(["a", "ab", chars.WIDE[0], "a" + chars.WIDE[1], "x" + chars.ZERO[0]]), st.sampled_from([64, 128, 192, 256]), st.sampled_from([0, 0, 1]))
        s = st.one_of(chars.mixed_text(12), chars.mixed_text(80, min_size=60), st.text(st.characters(blacklist_categories=("Cs",)), max_size=10), boundary, table_run_text(12))
        q = st.tuples(st.just("q"), s)
        again = st.tuples(st.just("again"), st.integers(0, 30))
        flood = st.one_of(st.tuples(st.just("flood_str"), st.integers(0, 5)), st.tuples(st.just("flood_cp"), st.integers(0, 5)))
        # resizing goes through the same caches: set_cell_size calls (also with the negative totals that rich itself produces, e.g. truncating to 0 cells with an ellipsis)
        setop = st.tuples(st.just("set"), st.tuples(s, st.integers(-3, 12)).map(list))
        q = st.one_of(q, q, q, st.just(("q", "")))
        op = st.one_of(q, q, again, again, flood, setop)
        free = st.lists(op, min_size=2, max_size=25)
        # shaped histories: queries, a flood, the same strings again (eviction between two queries of one string)
        shaped = st.builds(lambda qs, f, ag, tail: qs + [f] + ag + tail, st.lists(q, min_size=1, max_size=6), flood, st.lists(again, min_size=1, max_size=6), st.lists(op, max_size=5))
        return st.one_of(free, shaped).map(lambda ops: {"ops": [list(o) for o in ops]})

    def check(self, spec, ctx):
        from rich import cells as RC

        asked = []
        flooded_at = -1
        for i, (kind, arg) in enumerate(spec["ops"]):
            if kind == "q" or kind == "again":
                if kind == "again":
                    if not asked:
                        continue
                    s, first_i = asked[arg % len(asked)]
                    if flooded_at > first_i and any(OC.cw(c) != 1 for c in s):
                        ctx.nontrivial = True
                        ctx.cls("requery-after-eviction")
                else:
                    s = arg
                    asked.append((s, i))
                got = sut(RC.cell_len, s)
                want = OC.width(s)
                if got != want:
                    ctx.violation("history", "C13/history/cell_len", "cell_len(%r)=%r, table sum %r at op %d" % (s, got, want, i))
                    return
                if len(s) > 64:
                    ctx.cls("long-uncached")
            elif kind == "set":
                text, total = arg
                out = sut(RC.set_cell_size, text, total)
                if total >= 0 and OC.width(out) != total:
                    ctx.violation("history", "C13/history/set", "set_cell_size(%r, %d) -> %r (%d cells) at op %d" % (text, total, out, OC.width(out), i))
                    return
                for probe in ("", out, text):
                    got = sut(RC.cell_len, probe)
                    if got != OC.width(probe):
                        ctx.violation("history", "C13/history/cell_len-after-resize", "after set_cell_size(%r, %d): cell_len(%r)=%r, table sum %r" % (text, total, probe, got, OC.width(probe)))
                        return
                ctx.cls("resize-in-history")
            elif kind == "flood_str":
                base = 0x4E00 + arg * 5000
                for k in range(4200):
                    t = chr(base + k) + "x" * (k % 3)
                    if sut(RC.cell_len, t) != OC.width(t):
                        ctx.violation("history", "C13/history/flood", "cell_len(%r) wrong during flood" % t)
                        return
                flooded_at = i
                ctx.cls("flood-str")
            else:
                base = 0xAC00 + arg * 1000
                for k in range(4200):
                    if sut(RC.get_character_cell_size, chr(base + k)) != OC.table()[base + k]:
                        ctx.violation("history", "C13/history/flood", "U+%04X wrong during flood" % (base + k))
                        return
                flooded_at = i
                ctx.cls("flood-cp")


class LongStrings(Part):
    name = "long-strings"
    rule = ("long strings (65 characters to 64Ki, lengths around 64/128/256/512/1024/4096/8192/65536) assembled from 1-3 repeated units - words, single / double / "
            "leading / trailing spaces, sentence gaps, wide and zero-width characters, ASCII control characters that Text keeps (ESC, NUL, SOH), tabs - measured with "
            "cell_len (twice), resized with set_cell_size to widths around their own, chopped with chop_cells; non-trivial = longer than 512 characters with a run of "
            "spaces, a control character or a non-narrow character")
    budget = {"quick": (8, 250), "thorough": (16, 4000)}

    def strategy(self, tier):
        unit = st.sampled_from(["a", "ab ", "word ", "a  b", ".  Next", "   ", " lead", "trail ", "\x1b[31m", "\x1b", "\x00", "\x01x", "\t", chars.WIDE[0], chars.WIDE[1] + " ", "x" + chars.ZERO[0],
                                "\u3000", "\xa0", "e\u0301", "~", "\x7f"])
        length = st.one_of(st.sampled_from([64, 128, 256, 512, 1024, 4096, 8192]).flatmap(lambda n: st.integers(n - 2, n + 3)), st.integers(65, 700), st.sampled_from([20000, 65536, 65537]))
        return st.builds(lambda units, n, lead, trail, d: {"units": units, "len": n, "lead": lead, "trail": trail, "delta": d}, st.lists(unit, min_size=1, max_size=3), length,
                         st.sampled_from(["", "", " ", "    "]), st.sampled_from(["", "", " ", "  "]), st.integers(-5, 5))

    def check(self, spec, ctx):
        from rich import cells as RC

        body = "".join(spec["units"])
        s = spec["lead"] + (body * (spec["len"] // len(body) + 1))[:spec["len"]] + spec["trail"]
        want = OC.width(s)
        for i in (1, 2):
            got = sut(RC.cell_len, s)
            if got != want:
                ctx.violation("history", "C13/long/cell_len", "cell_len of a %d-character string made of %r (lead %r, trail %r) = %r, the table sum is %r (query %d)" % (
                    len(s), spec["units"], spec["lead"], spec["trail"], got, want, i))
                return
        n = max(0, want + spec["delta"])
        out = sut(RC.set_cell_size, s, n)
        if OC.width(out) != n or not (out.rstrip(" ") == "" or s.startswith(out.rstrip(" ")) or out.startswith(s)):
            ctx.violation("set_cell_size", "C13/long/set", "set_cell_size(<%d characters of %r>, %d) is %d cells wide / not a prefix plus spaces: %r..." % (len(s), spec["units"], n, OC.width(out), out[-40:]))
            return
        if len(s) <= 5000:
            w = max(2, min(200, 40 + spec["delta"] * 7))
            pieces = sut(RC.chop_cells, s, w)
            if "".join(pieces) != s or any(OC.width(p) > w for p in pieces):
                ctx.violation("chop_cells", "C13/long/chop", "chop_cells(<%d characters of %r>, %d): pieces do not concatenate to the string or do not fit" % (len(s), spec["units"], w))
                return
        if len(s) > 512 and ("  " in s or any(OC.cw(c) != 1 for c in s)):
            ctx.nontrivial = True
        ctx.cls("len>512" if len(s) > 512 else "len<=512")


class FirstUseInterrupted(Part):
    name = "first-use-interrupted"
    custom = True
    exhaustive = True
    FIRSTS = ["\u3042\u30a2", "e\u0301\u0300", "a\u4e00\uff21\u200b", "\u1100\u115f\u1160"]
    LONG1 = "GET https://example.org/api/v2/items?page=3&per_page=50&sort=created_at"  # 72 characters, 72 cells
    LONG2 = "https://example.org/download/releases/2021/02/archive/" + "\u65e5\u672c\u8a9e\u306e\u30d5\u30a1\u30a4\u30eb\u540d" + "/rich-9.10.0-py3-none-any.whl?token=0123456789abcdef0123456789abcdef#sha256"  # 138 characters, 147 cells
    LONG3 = "\u4e00\u3042e\u0301 " * 17  # 85 characters, every one outside the ASCII shortcut except the blanks
    # what is measured undisturbed before ("pre"), the measurement that is aborted ("op" on "first"; "n" = total of set_cell_size / width of chop_cells)
    SCENARIOS = [{"pre": [], "op": "cell_len", "first": f} for f in FIRSTS] + [
        {"pre": [], "op": "cell_len", "first": LONG2},                                  # first measurement of the process, longer than the 64 characters the cache keeps
        {"pre": [], "op": "cell_len", "first": LONG3},
        {"pre": [LONG1, "caf\u00e9"], "op": "cell_len", "first": LONG2},                # a later measurement: another long string and a short one were measured before
        {"pre": [LONG1, LONG2], "op": "cell_len", "first": LONG2},                      # the same long string measured again, and that measurement aborted
        {"pre": [LONG2, LONG1], "op": "cell_len", "first": LONG2},
        {"pre": ["abc", "\u3042\u30a2"], "op": "cell_len", "first": "\u3044\u30a4\u4e00"},  # a later measurement of a short string whose block was looked up before
        {"pre": ["a\u4e00\uff21\u200b"], "op": "cell_len", "first": "a\u4e00\uff21\u200b"},   # a cached string measured again
        {"pre": [LONG1], "op": "set", "first": LONG2, "n": 80},                         # resizing / chopping aborted (they measure the whole string, then every character)
        {"pre": [], "op": "set", "first": LONG3, "n": 40},
        {"pre": ["a"], "op": "set", "first": "a\u4e00\uff21\u200bxyz", "n": 2},
        {"pre": [], "op": "chop", "first": "\ud55c\uae00 and \u6f22\u5b57 e\u0301\u0300 mixed \U0001F600\U0001F64F!", "n": 7},
        {"pre": [LONG3], "op": "chop", "first": LONG3, "n": 11},
    ]
    rule = ("in a fresh interpreter a width measurement is aborted by a KeyboardInterrupt raised at the K-th executed line of cells.py / _lru_cache.py, K = 1..120 (quick: every fourth) and, for "
            "strings longer than 64 characters, K = 121..700 in steps of 7 (quick: 37).  The aborted measurement is the first of the process (cell_len of a Hiragana/Katakana, a combining, a mixed "
            "CJK / fullwidth / zero-width or a Hangul-Jamo string, of a 138-character URL with CJK and of an 85-character string outside the ASCII shortcut) or a later one (after other long and short "
            "strings, or the same string, were measured undisturbed), made through cell_len, set_cell_size or chop_cells.  The program goes on and measures every code point of the 256-blocks the "
            "string touches plus every 97th code point up to U+30000 with get_character_cell_size and cell_len, then the aborted string again (twice), the strings measured before it, "
            "set_cell_size of the string to 0 / 1 / half / width-1 / width / width+2 cells and chop_cells to 2 / 7 / n cells: all agree with the table; "
            "non-trivial = the interrupt fell inside the measurement")
    budget = {"quick": (16, 1), "thorough": (16, 1)}

    def _run(self, k, scenario):
        import json
        import os
        import subprocess
        import sys

        here = os.path.dirname(os.path.dirname(os.path.abspath(__file__)))
        p = subprocess.run([sys.executable, "-B", os.path.join(here, "first_use_c13.py"), str(k), json.dumps(scenario)], stdout=subprocess.PIPE, stderr=subprocess.PIPE, text=True, timeout=120,
                           env=dict(os.environ, PYTHONHASHSEED="0"))
        if p.returncode != 0:
            return None, p.stderr[-400:]
        return json.loads(p.stdout.strip().splitlines()[-1]), None

    def run_shard(self, tier, shard, nshards, seed, stats, deadline, known):
        import time as _t

        quick = tier == "quick"
        jobs = [(k, sc) for k in range(1, 121, 4 if quick else 1) for sc in self.SCENARIOS]
        jobs += [(k, sc) for k in range(121, 701, 37 if quick else 7) for sc in self.SCENARIOS if len(sc["first"]) > 64]
        n = nt = 0
        sig = "C13/firstuse/wrong-after-interrupt"
        for ji, (k, sc) in enumerate(jobs):
            if ji % nshards != shard:
                continue
            if _t.time() > deadline:
                stats.capped = True
                break
            res, err = self._run(k, sc)
            if res is None:
                stats.harness_error = "first_use_c13.py failed: %s" % err
                break
            n += 1
            nt += 1 if res["interrupted"] else 0
            if res["problems"] and sig not in stats.found and not known.match(sig):
                stats.found[sig] = {"spec": {"k": k, "scenario": sc}, "clause": "history", "size": 1, "part": self.name,
                                    "detail": "after %s(%r) - measured before it: %r - was interrupted at line %d: %s" % (sc["op"], sc["first"], sc["pre"], k, "; ".join(res["problems"]))}
        stats.evaluations += n
        stats.nontrivial_count_distinct += nt
        if not stats.capped:
            stats.done += 1
        stats.samples.append((1, {"shard": shard, "processes": n, "example": {"k": 20, "scenario": self.SCENARIOS[0]}}, "range"))

    def replay(self, spec, ctx):
        res, err = self._run(spec["k"], spec["scenario"] if "scenario" in spec else spec["first"])
        if res is None:
            raise RuntimeError(err)
        if res["problems"]:
            ctx.violation("history", "C13/firstuse/wrong-after-interrupt", "; ".join(res["problems"]))


# --------------------------------------------------------------------------------------------- (c) (d)
class Resize(Part):
    name = "resize"
    rule = ("set_cell_size(s, n) and chop_cells(s, w, position) over mixed-width strings |s|<=80 (a fixed mixed alphabet; strings whose characters stay at the edges of one row of the "
            "width table - its first / last code points and the code points just outside it on either side - mixed with ASCII; arbitrary Unicode strings), n 0..100, w>=2; "
            "non-trivial = a wide character straddles the cut (set) / a piece boundary (chop)")
    budget = {"quick": (4, 1500), "thorough": (16, 12000)}

    def strategy(self, tier):
        boundary = st.builds(lambda unit, n, cut: (unit * 300)[:n - cut], st.sampled_from(["a", "ab", chars.WIDE[0], "a" + chars.WIDE[1]]), st.sampled_from([64, 128, 192]), st.sampled_from([0, 0, 1]))
        s = st.one_of(chars.mixed_text(80), chars.mixed_text(12), st.text(st.sampled_from(chars.WIDE + "ab" + chars.ZERO), max_size=30), boundary,
                     # strings that stay around one row of the width table (first / last code point of the row, the code points next to it on either side), and arbitrary Unicode
                     table_run_text(24), table_run_text(8), st.text(st.characters(blacklist_categories=("Cs",)), max_size=12))
        a = st.builds(lambda s, n: {"op": "set", "s": s, "n": n}, s, st.one_of(st.integers(0, 100), st.integers(0, 400)))
        a2 = st.builds(lambda s, d: {"op": "set", "s": s, "n": max(0, OC.width(s) + d)}, s, st.integers(-6, 3))
        b = st.builds(lambda s, w, p: {"op": "chop", "s": s, "w": w, "p": min(p, w)}, s, st.integers(2, 40), st.integers(0, 40))
        # the position may lie beyond the width (the wrapper counts the spaces that trail the previous word)
        b2 = st.builds(lambda s, w, extra: {"op": "chop", "s": s, "w": w, "p": w + extra}, st.one_of(s, st.text(st.sampled_from("abcdefghij"), min_size=5, max_size=40)), st.integers(2, 20), st.integers(1, 30))
        return st.one_of(a, a2, b, b, b2)

    def check(self, spec, ctx):
        from rich import cells as RC

        if spec["op"] == "chop":
            # what a caller does with the list it got back must not matter to the next caller
            for first in (sut(RC.chop_cells, spec["s"], spec["w"], spec["p"]), sut(RC.chop_cells, spec["s"], spec["w"], position=spec["p"])):
                if isinstance(first, list):
                    first.append("<edited by the caller>")
                    first[0] = ""

        s = spec["s"]
        if spec["op"] == "set":
            n = spec["n"]
            out = sut(RC.set_cell_size, s, n)
            total = OC.width(s)
            if OC.width(out) != n:
                ctx.violation("set_cell_size", "C13/set/width", "set_cell_size(%r,%d) -> %r has %d cells" % (s, n, out, OC.width(out)))
                return
            body = out.rstrip(" ") if not s.endswith(" ") else None
            # out == s[:k] + " " * m for some k, m
            ok = False
            for k in range(min(len(s), len(out)), -1, -1):
                if out.startswith(s[:k]) and set(out[k:]) <= {" "}:
                    ok = True
                    kept = OC.width(s[:k])
                    if kept < min(n, total) - 1:
                        ctx.violation("set_cell_size", "C13/set/lost", "set_cell_size(%r,%d) -> %r keeps only %d cells of source" % (s, n, out, kept))
                    if n < total and k < len(s) and OC.cw(s[k]) == 2 and kept == n - 1:
                        ctx.nontrivial = True
                        ctx.cls("set-wide-straddle")
                    break
            if not ok:
                ctx.violation("set_cell_size", "C13/set/prefix", "set_cell_size(%r,%d) -> %r is not prefix+spaces" % (s, n, out))
            if n < total:
                ctx.cls("set-crop")
            elif n > total:
                ctx.cls("set-pad")
        else:
            w, p = spec["w"], spec["p"]
            pieces = sut(RC.chop_cells, s, w, position=p)
            if "".join(pieces) != s:
                ctx.violation("chop_cells", "C13/chop/concat", "chop_cells(%r,%d,%d) -> %r does not concatenate" % (s, w, p, pieces))
                return
            for i, piece in enumerate(pieces):
                lim = max(0, w - p) if i == 0 else w
                if OC.width(piece) > lim:
                    ctx.violation("chop_cells", "C13/chop/fit", "chop_cells(%r,%d,%d) piece %d %r wider than %d" % (s, w, p, i, piece, lim))
                    return
            if len(pieces) > 1:
                ctx.cls("chop-multi")
                for i, piece in enumerate(pieces[:-1]):
                    lim = max(0, w - p) if i == 0 else w
                    nxt = pieces[i + 1]
                    if nxt and OC.cw(nxt[0]) == 2 and OC.width(piece) == lim - 1:
                        ctx.nontrivial = True
                        ctx.cls("chop-wide-straddle")


# --------------------------------------------------------------------------------------------- (e)
SEG_STYLES = [None, None] + GS.PALETTE[:8]


def seg_strategy(newlines=True, controls=True):
    txt = st.one_of(chars.mixed_text(8, newlines=newlines, min_size=1), chars.mixed_text(3, newlines=newlines), st.sampled_from(["\n", "a\nb", "x", chars.WIDE[0] * 2, " "]) if newlines else st.sampled_from(["x", chars.WIDE[0] * 2, " "]),
                    # characters at which str.splitlines() breaks but a line of segments does not (CR, VT, FF, FS, NEL, LS, PS): they are ordinary zero-width characters here
                    st.sampled_from(["a\rb", "x\x0cy", "p\x1cq", "m\x85n", "u\u2028v", "w\u2029", "\x0b"] + (["a\r\nb", "s\u2028\nt"] if newlines else [])),
                    # text that stays around one row of the width table (cropping a segment resizes its text)
                    table_run_text(6, min_cp=0xA0))
    sty = st.sampled_from(SEG_STYLES)
    plain = st.builds(lambda t, s: {"t": t, "s": s, "c": False}, txt, sty)
    if not controls:
        return plain
    # control segments: escape codes, and - what LiveRender / Segment.line(is_control=True) / Segment.make_control produce - any text at all, with or without a style:
    # a lone new line, text that contains new lines, printable and wide text.  They occupy no cells, never end a line and are never split or cropped.
    ctl_text = st.one_of(st.sampled_from(["\x07", "\x1b[2J", "\x1b[?25l", "\x1b[1A\x1b[2K", "\r"]),
                         st.sampled_from(["\n", "\n", "\n\n", "\x1b[1A\n\x1b[2K", "ab", "a\nb", "x\n", "\ny", "", " ", chars.WIDE[0] * 2, chars.WIDE[1] + "\n"]) if newlines else st.sampled_from(["ab", "", " ", chars.WIDE[0] * 2]),
                         chars.mixed_text(4, newlines=newlines))
    ctl = st.builds(lambda t, s: {"t": t, "s": s, "c": True}, ctl_text, st.sampled_from([None, None] + GS.PALETTE[:3]))
    return st.one_of(plain, plain, plain, plain, ctl)


def build_segs(specs):
    from rich.segment import Segment

    return [Segment(s["t"], GS.build_style(s["s"]), s["c"]) for s in specs]


def view(segments):
    """[(char, styleview) | ('CTL', (text, styleview))] of a list of segments."""
    out = []
    for seg in segments:
        if seg.is_control:
            out.append(("CTL", (seg.text, GS.style_view(seg.style))))
        else:
            sv = GS.style_view(seg.style)
            for ch in seg.text:
                out.append((ch, sv))
    return out


def model_lines(specs):
    """Reference line split: list of lists of (char, styleview)|('CTL', (text, styleview))."""
    lines = []
    cur = []
    open_ = False
    for s in specs:
        if s["c"]:
            cur.append(("CTL", (s["t"], GS.spec_view(s["s"]))))
            open_ = True
            continue
        sv = GS.spec_view(s["s"])
        if "\n" not in s["t"]:
            open_ = True
        for ch in s["t"]:
            if ch == "\n":
                lines.append(cur)
                cur = []
                open_ = False
            else:
                cur.append((ch, sv))
                open_ = True
    if open_:
        lines.append(cur)
    return lines


def vis_width(v):
    return sum(OC.cw(ch) for ch, _ in v if ch != "CTL")


def check_adjusted(ctx, what, src, out, length, pad, padview, sigroot):
    """src/out: views of one line. Returns True if a wide char straddled the cut."""
    srcv = [x for x in src if x[0] != "CTL"]
    outv = [x for x in out if x[0] != "CTL"]
    for x in out:
        if x[0] == "CTL" and x not in src:
            ctx.violation(what, sigroot + "/control-invented", "control %r not in source line" % (x,))
            return False
    src_ctl = [x for x in src if x[0] == "CTL"]
    for ch, _ in outv:
        if ch == "\n" or ch in "\x07\x1b":
            ctx.violation(what, sigroot + "/control-visible", "control/newline character became visible text: %r" % (out,))
            return False
    total = vis_width(srcv)
    ow = vis_width(outv)
    if total <= length:
        want = list(srcv)
        if pad and total < length:
            want += [(" ", padview)] * (length - total)
        if outv != want:
            if [c for c, _ in outv] == [c for c, _ in want]:
                # which part differs?
                k = len(srcv)
                if outv[:k] == want[:k]:
                    ctx.violation(what, sigroot + "/pad-style", "padding style %r, requested %r; line %r" % (outv[k:][:1], padview, outv))
                else:
                    ctx.violation(what, sigroot + "/style-changed", "styles changed: %r -> %r" % (srcv, outv))
            else:
                ctx.violation(what, sigroot + "/chars", "line %r -> %r (length %d pad %r)" % (srcv, outv, length, pad))
        return False
    # cropping
    if ow != length:
        ctx.violation(what, sigroot + "/length", "cropped line has %d cells, wanted %d: %r" % (ow, length, outv))
        return False
    k = 0
    while k < len(outv) and k < len(srcv) and outv[k] == srcv[k]:
        k += 1
    rest = outv[k:]
    if not rest:
        return False
    if len(rest) == 1 and rest[0][0] == " " and k < len(srcv) and OC.cw(srcv[k][0]) == 2 and rest[0][1] == srcv[k][1]:
        return True
    ctx.violation(what, sigroot + "/prefix", "cropped line is not a cell prefix of the source: %r -> %r" % (srcv, outv))
    return False


class Shaping(Part):
    name = "shaping"
    rule = ("segment lists (<=10 segments, mixed-width text and text that stays at the edges of one row of the width table, newlines anywhere, palette styles; one segment in five is a control segment, styled or not, whose text is an escape code, "
            "a lone new line, text with new lines, printable or wide text, or empty) x length 0..40 x pad x pad style "
            "x include_new_lines through split_lines / split_and_crop_lines / adjust_line_length / set_shape / simplify; compared with a model in which only a new line of a "
            "non-control segment ends a line and control segments pass through unchanged (text and style) and occupy no cells; non-trivial = a wide "
            "character straddles the cut, or a styled newline-bearing segment precedes padding of a different style, or a control segment is adjacent to text, "
            "or a control segment containing a new line shares the list with printable text")
    budget = {"quick": (4, 1500), "thorough": (16, 10000)}

    def strategy(self, tier):
        segs = st.lists(seg_strategy(), min_size=0, max_size=10)
        return st.builds(
            lambda op, segs, length, pad, ps, inl, h, re_: {"op": op, "segs": segs, "length": length, "pad": pad, "pad_style": ps, "inl": inl, "h": h, "reentrant": re_},
            st.sampled_from(["split", "crop", "crop", "adjust", "shape", "simplify"]),
            segs,
            st.one_of(st.integers(0, 12), st.integers(0, 40)),
            st.booleans(),
            st.sampled_from([None] + GS.PALETTE[6:10]),
            st.booleans(),
            st.integers(0, 4),
            st.one_of(st.none(), st.none(), st.integers(0, 9)),
        )

    def check(self, spec, ctx):
        from rich.segment import Segment

        op = spec["op"]
        specs = spec["segs"]
        length = spec["length"]
        pad = spec["pad"]
        pstyle = GS.build_style(spec["pad_style"])
        padview = GS.spec_view(spec["pad_style"])
        segs = build_segs(specs)
        ctx.cls(op)
        if any(s["c"] and "\n" in s["t"] for s in specs):
            # a new line inside a control segment is a control code like any other: it neither ends a line nor occupies cells
            ctx.cls("control-with-new-line")
            if op != "simplify" and any(not s["c"] and s["t"].replace("\n", "") for s in specs):
                ctx.nontrivial = True
        if op == "simplify":
            out = list(sut(Segment.simplify, iter(segs)))
            a, b = view(segs), view(out)
            if a != b:
                sig = "C13/simplify/control-merged" if [x for x in a if x[0] == "CTL"] != [x for x in b if x[0] == "CTL"] else "C13/simplify/changed"
                ctx.violation("simplify", sig, "simplify changed the (char, style, control) sequence: %r -> %r" % (segs, out))
            for i, s in enumerate(specs[:-1]):
                if s["c"] != specs[i + 1]["c"]:
                    ctx.nontrivial = True
                    ctx.cls("control-adjacent")
            return
        if op == "split":
            out = [list(l) for l in sut(Segment.split_lines, iter(segs))]
            want = model_lines(specs)
            got = [view(l) for l in out]
            if got != want:
                ctx.violation("split_lines", "C13/split/lines", "split_lines(%r) -> %r, expected %r" % (segs, got, want))
            if len(want) > 1 and any(s["s"] for s in specs):
                ctx.nontrivial = True
            return
        if op == "adjust":
            line_specs = [s if s["c"] else dict(s, t=s["t"].replace("\n", "")) for s in specs]
            line = build_segs(line_specs)
            out = sut(Segment.adjust_line_length, line, length, style=pstyle, pad=pad)
            src = view(line)
            if check_adjusted(ctx, "adjust_line_length", src, view(out), length, pad, padview, "C13/adjust"):
                ctx.nontrivial = True
                ctx.cls("wide-straddle")
            return
        if op == "crop":
            inl = spec["inl"]
            def feeding():
                # the iterable that is being shaped may itself shape something while it is consumed (a renderable that renders a child between two of its segments)
                for k, sg in enumerate(segs):
                    if spec.get("reentrant") is not None and k == spec["reentrant"] % max(1, len(segs)):
                        list(Segment.split_and_crop_lines([Segment("inner one\ninner two"), Segment("x")], 4, pad=True))
                    yield sg

            out = [list(l) for l in sut(Segment.split_and_crop_lines, feeding(), length, style=pstyle, pad=pad, include_new_lines=inl)]
            if spec.get("reentrant") is not None:
                ctx.cls("shaping-while-being-consumed")
            want = model_lines(specs)
            if len(out) != len(want):
                ctx.violation("split_and_crop_lines", "C13/crop/line-count", "%d lines, expected %d: %r" % (len(out), len(want), out))
                return
            seen_styled_nl = False
            for i, (o, w) in enumerate(zip(out, want)):
                ov = view(o)
                if inl and ov and ov[-1][0] == "\n":
                    ov = ov[:-1]
                elif inl and i < len(want) - 1:
                    ctx.violation("split_and_crop_lines", "C13/crop/newline", "line %d lacks its new line segment" % i)
                    return
                before = len(ctx.violations)
                if check_adjusted(ctx, "split_and_crop_lines", w, ov, length, pad, padview, "C13/crop"):
                    ctx.nontrivial = True
                    ctx.cls("wide-straddle")
                if len(ctx.violations) > before:
                    return
            # non-trivial: newline inside a styled segment and some line padded with a different style
            for s in specs:
                if not s["c"] and "\n" in s["t"] and s["s"] is not None and pad and GS.spec_view(s["s"]) != padview:
                    if any(vis_width(w) < length for w in want):
                        ctx.nontrivial = True
                        ctx.cls("styled-newline-then-pad")
            return
        if op == "shape":
            lines = model_lines(specs)
            built = [list(l) for l in Segment.split_lines(iter(segs))]
            if [view(l) for l in built] != lines:
                return  # split_lines itself is judged in 'split'
            h = len(lines) + spec["h"] if spec["h"] < 4 else None
            out = sut(Segment.set_shape, built, length, h, style=pstyle)
            want_h = len(lines) if h is None else h
            if len(out) != want_h:
                ctx.violation("set_shape", "C13/shape/height", "%d lines, expected %d" % (len(out), want_h))
                return
            for i, o in enumerate(out):
                src = lines[i] if i < len(lines) else []
                if check_adjusted(ctx, "set_shape", src, view(o), length, True, padview, "C13/shape"):
                    ctx.nontrivial = True
                    ctx.cls("wide-straddle")
                if ctx.violations:
                    return
            if h is not None and h > len(lines) and spec["pad_style"]:
                ctx.nontrivial = True


PARTS = [CodePoints(), History(), Resize(), Shaping(), LongStrings(), FirstUseInterrupted()]
