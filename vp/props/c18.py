"""C18 - colour down-conversion stays in gamut, is idempotent and picks the nearest entry."""
import colorsys
from hypothesis import strategies as st

from ..core import Part, sut, Ctx

PROP_ID = "C18"
LEVEL = "exploration"
RULE = "enumerated RGB domains (grid / boundary lattice / all 2^24 in the thorough tier) + Hypothesis-generated colours"
ASSUMPTIONS = [
    "the palettes in rich/_palettes.py are the reference palettes; the metric is recomputed independently with integer arithmetic",
    "colours are built only through the public factories (parse, from_ansi, from_rgb, from_triplet, default)",
    "any index of minimum integer distance is accepted (ties)",
]

SYSTEMS = ["STANDARD", "EIGHT_BIT", "TRUECOLOR", "WINDOWS"]
BOUNDARY = [0, 1, 2, 47, 48, 95, 96, 127, 128, 135, 136, 175, 215, 254, 255]


def palettes():
    from rich._palettes import STANDARD_PALETTE, WINDOWS_PALETTE, EIGHT_BIT_PALETTE

    return ([tuple(STANDARD_PALETTE[i]) for i in range(16)], [tuple(WINDOWS_PALETTE[i]) for i in range(16)], [tuple(EIGHT_BIT_PALETTE[i]) for i in range(256)])


def dist(c, p):
    r1, g1, b1 = c
    r2, g2, b2 = p
    rm = (r1 + r2) // 2
    dr, dg, db = r1 - r2, g1 - g2, b1 - b2
    return (((512 + rm) * dr * dr) >> 8) + 4 * dg * dg + (((767 - rm) * db * db) >> 8)


def expected_codes(kind, fg):
    """Standard SGR parameters for a canonical colour ('default',)|('idx',n,type)|('rgb',r,g,b)."""
    if kind[0] == "default":
        return ("39",) if fg else ("49",)
    if kind[0] == "idx16":
        n = kind[1]
        base = (30 if fg else 40) if n < 8 else (90 - 8 if fg else 100 - 8)
        return (str(base + n),)
    if kind[0] == "idx256":
        return ("38" if fg else "48", "5", str(kind[1]))
    return ("38" if fg else "48", "2", str(kind[1]), str(kind[2]), str(kind[3]))


def kind_of(color):
    t = color.type.name
    if t == "DEFAULT":
        return ("default",)
    if t in ("STANDARD", "WINDOWS"):
        return ("idx16", color.number)
    if t == "EIGHT_BIT":
        return ("idx256", color.number)
    return ("rgb",) + tuple(color.triplet)


def check_one(ctx, color, src_rgb, sysname, pals, mind=None):
    """All clauses for one colour and one target system. src_rgb: the RGB used for distance (None for default).
    mind: precomputed minimum distance (numpy path) or None."""
    from rich.color import ColorSystem, ColorType

    std, win, eight = pals
    system = ColorSystem[sysname]
    d = sut(color.downgrade, system)
    ctype = color.type.name
    dtype = d.type.name
    desc = "%r -> %s" % (color, sysname)
    # default stays default
    if ctype == "DEFAULT":
        if dtype != "DEFAULT":
            ctx.violation("default", "C18/default/changed", desc + " gave %r" % (d,))
        return d
    # gamut
    if sysname in ("STANDARD", "WINDOWS"):
        if dtype not in ("STANDARD", "WINDOWS") or d.number is None or not 0 <= d.number <= 15:
            ctx.violation("gamut", "C18/gamut/%s" % sysname.lower(), desc + " gave %r" % (d,))
            return d
    elif sysname == "EIGHT_BIT":
        if dtype not in ("STANDARD", "EIGHT_BIT") or d.number is None or not 0 <= d.number <= 255 or (dtype == "STANDARD" and d.number > 15):
            ctx.violation("gamut", "C18/gamut/256", desc + " gave %r" % (d,))
            return d
    # idempotent
    d2 = sut(d.downgrade, system)
    if kind_of(d2) != kind_of(d) or d2.type != d.type:
        ctx.violation("idempotent", "C18/idempotent/%s" % sysname.lower(), desc + " gave %r, again %r" % (d, d2))
    # already representable -> unchanged
    rank = {"STANDARD": 1, "WINDOWS": 1, "EIGHT_BIT": 2, "TRUECOLOR": 3}
    if rank[ctype] <= rank[sysname]:
        if kind_of(d) != kind_of(color):
            ctx.violation("unchanged", "C18/unchanged/%s" % sysname.lower(), desc + " changed a representable colour to %r" % (d,))
        elif sysname in ("EIGHT_BIT", "TRUECOLOR") and d != color:
            ctx.violation("unchanged", "C18/unchanged/equal", desc + " returned an unequal colour %r" % (d,))
        for fg in (True, False):
            if sut(d.get_ansi_codes, foreground=fg) != sut(color.get_ansi_codes, foreground=fg):
                ctx.violation("unchanged", "C18/unchanged/codes", desc + " changed SGR codes")
        return d
    # nearest entry for 16-colour targets
    if sysname in ("STANDARD", "WINDOWS"):
        pal = std if sysname == "STANDARD" else win
        got = dist(src_rgb, pal[d.number])
        best = mind if mind is not None else min(dist(src_rgb, p) for p in pal)
        if got != best:
            ctx.violation("nearest", "C18/nearest/%s" % sysname.lower(), desc + " picked %d at distance %d, minimum is %d" % (d.number, got, best))
    elif sysname == "EIGHT_BIT" and src_rgb is not None and ctype == "TRUECOLOR":
        r, g, b = src_rgb
        if r == g == b and not (d.number == 16 or d.number >= 231):
            ctx.violation("grey", "C18/grey/ramp", desc + " put a grey on %d" % d.number)
    return d


def check_codes(ctx, color):
    for fg in (True, False):
        got = sut(color.get_ansi_codes, foreground=fg)
        want = expected_codes(kind_of(color), fg)
        if tuple(got) != want:
            ctx.violation("sgr", "C18/sgr/%s" % kind_of(color)[0], "%r fg=%r codes %r, standard %r" % (color, fg, got, want))


def near_boundary(rgb, pals):
    std, win, _ = pals
    for pal in (std, win):
        ds = sorted(dist(rgb, p) for p in pal)
        if ds[1] > 0 and (ds[1] - ds[0]) <= 0.05 * ds[1]:
            return True
    r, g, b = (x / 255.0 for x in rgb)
    _h, l, s = colorsys.rgb_to_hls(r, g, b)
    return abs(s - 0.1) <= 0.02


# ------------------------------------------------------------------------------------------------
class Generated(Part):
    name = "generated"
    rule = ("Hypothesis: colour built by a generated public factory route (parse of #hex / rgb() / color(n) / name / default, from_rgb, from_triplet, "
            "from_ansi) x 4 target systems x fg/bg, then the downgraded colour's own SGR codes; non-trivial = truecolor source whose two best "
            "palette distances differ by <5% or whose HLS saturation is within 0.02 of the 0.1 grey threshold")
    budget = {"quick": (4, 2500), "thorough": (16, 20000)}

    def strategy(self, tier):
        byte = st.one_of(st.integers(0, 255), st.sampled_from(BOUNDARY))
        grey = st.integers(0, 255).map(lambda v: [v, v, v])
        near_grey = st.tuples(st.integers(0, 255), st.integers(-14, 14), st.integers(-14, 14)).map(lambda t: [t[0], min(255, max(0, t[0] + t[1])), min(255, max(0, t[0] + t[2]))])
        rgb = st.one_of(st.tuples(byte, byte, byte).map(list), grey, near_grey)
        from ..gen.styles import NAMED16, NAMED256

        src = st.one_of(
            st.builds(lambda c, route: {"rgb": c, "route": route}, rgb, st.sampled_from(["hex", "rgbfn", "from_rgb", "from_triplet", "HEX"])),
            st.builds(lambda n, route: {"idx": n, "route": route}, st.integers(0, 255), st.sampled_from(["from_ansi", "color()"])),
            st.builds(lambda n: {"name": n}, st.sampled_from(NAMED16 + NAMED256 + ["default"])),
        )
        return src

    def build(self, spec):
        from rich.color import Color
        from rich.color_triplet import ColorTriplet

        if "rgb" in spec:
            r, g, b = spec["rgb"]
            route = spec["route"]
            if route == "hex":
                return sut(Color.parse, "#%02x%02x%02x" % (r, g, b)), (r, g, b)
            if route == "HEX":
                return sut(Color.parse, " #%02X%02X%02X " % (r, g, b)), (r, g, b)
            if route == "rgbfn":
                return sut(Color.parse, "rgb(%d,%d,%d)" % (r, g, b)), (r, g, b)
            if route == "from_rgb":
                return sut(Color.from_rgb, r, g, b), (r, g, b)
            return sut(Color.from_triplet, ColorTriplet(r, g, b)), (r, g, b)
        if "idx" in spec:
            n = spec["idx"]
            c = sut(Color.from_ansi, n) if spec["route"] == "from_ansi" else sut(Color.parse, "color(%d)" % n)
            return c, None
        return sut(Color.parse, spec["name"]), None

    def check(self, spec, ctx):
        pals = palettes()
        color, rgb = self.build(spec)
        if "rgb" in spec:
            if kind_of(color) != ("rgb",) + tuple(rgb):
                ctx.violation("factory", "C18/factory/rgb", "%r built %r" % (spec, color))
                return
            ctx.cls("truecolor")
            if near_boundary(rgb, pals):
                ctx.nontrivial = True
                ctx.cls("near-boundary")
        elif "idx" in spec:
            want = ("idx16", spec["idx"]) if spec["idx"] < 16 else ("idx256", spec["idx"])
            if kind_of(color) != want:
                ctx.violation("factory", "C18/factory/idx", "%r built %r" % (spec, color))
                return
            rgb = pals[2][spec["idx"]]
            ctx.cls("indexed")
            ctx.nontrivial = spec["idx"] >= 16
        else:
            ctx.cls("named")
            if color.number is not None:
                rgb = pals[2][color.number]
        check_codes(ctx, color)
        for sysname in SYSTEMS:
            d = check_one(ctx, color, rgb, sysname, pals)
            check_codes(ctx, d)
            if ctx.violations:
                return


class StyleCodes(Part):
    name = "style-codes"
    rule = ("one Style object (generated foreground x background from all colour kinds incl. default / system / 256 / RGB, x any of the 13 attributes, sometimes only the rarely used ones) rendered with Style.render under a "
            "generated sequence of 2-4 colour systems, followed by 0-2 further Style objects with the same attribute combination and other colours: the SGR parameters written for each system are the attribute codes followed by the standard parameters of each "
            "colour down-converted to that system (computed from freshly built colours), whatever was rendered before; non-trivial = foreground and background of "
            "different kinds and >= 2 distinct systems")
    budget = {"quick": (4, 1500), "thorough": (16, 10000)}

    ATTR_CODE = [("bold", "1"), ("dim", "2"), ("italic", "3"), ("underline", "4"), ("blink", "5"), ("blink2", "6"), ("reverse", "7"), ("conceal", "8"), ("strike", "9"),
                 ("underline2", "21"), ("frame", "51"), ("encircle", "52"), ("overline", "53")]

    def strategy(self, tier):
        src = Generated().strategy(tier)
        plus = st.one_of(st.none(), st.builds(lambda fg, bg, link: {"fg": fg, "bg": bg, "link": link}, st.one_of(st.none(), st.none(), src), st.one_of(st.none(), src, src), st.booleans()))
        # attributes: mostly the common ones, sometimes only the rarely used ones (blink .. overline), sometimes none
        names = [a for a, _ in self.ATTR_CODE]
        attrs = st.one_of(st.lists(st.sampled_from(names[:4]), max_size=2, unique=True), st.lists(st.sampled_from(names[4:]), min_size=1, max_size=2, unique=True),
                          st.lists(st.sampled_from(names), max_size=3, unique=True))
        # further Style objects rendered afterwards: same attribute combination as the first (or their own), other colours or none
        sibling = st.builds(lambda fg, bg, own, sy: {"fg": fg, "bg": bg, "attrs": own, "systems": sy}, st.one_of(st.none(), src), st.one_of(st.none(), src), st.one_of(st.none(), st.none(), attrs),
                            st.lists(st.sampled_from(SYSTEMS), min_size=1, max_size=2))
        return st.builds(lambda fg, bg, attrs, systems, pl, sib: {"fg": fg, "bg": bg, "attrs": attrs, "systems": systems, "plus": pl, "siblings": sib}, st.one_of(st.none(), src, src), st.one_of(st.none(), src, src),
                         attrs, st.lists(st.sampled_from(SYSTEMS), min_size=2, max_size=4), plus, st.lists(sibling, max_size=2))

    def check(self, spec, ctx):
        import re
        from rich.color import ColorSystem
        from rich.style import Style

        g = Generated()
        attr_codes = lambda attrs: [c for a, c in self.ATTR_CODE if a in attrs]
        attr_code = dict(self.ATTR_CODE)
        rendered_before = []
        style = None
        for idx, one in enumerate([spec] + [dict(sb, attrs=spec["attrs"] if sb["attrs"] is None else sb["attrs"]) for sb in spec.get("siblings", [])]):
            fg = g.build(one["fg"])[0] if one["fg"] else None
            bg = g.build(one["bg"])[0] if one["bg"] else None
            st_obj = sut(Style, color=fg, bgcolor=bg, **{a: True for a in one["attrs"]})
            if idx == 0:
                style = st_obj
            for si, sysname in enumerate(one["systems"]):
                system = ColorSystem[sysname]
                out = sut(st_obj.render, "X", color_system=system)
                want = attr_codes(one["attrs"])
                for src, is_fg in ((one["fg"], True), (one["bg"], False)):
                    if src:
                        fresh = g.build(src)[0]
                        down = sut(fresh.downgrade, system)
                        want += list(expected_codes(kind_of(down), is_fg))
                m = re.fullmatch(r"\x1b\[([0-9;]*)mX\x1b\[0m", out)
                got = m.group(1).split(";") if m else (None if out != "X" else [])
                if got != want:
                    which = "first" if (idx == 0 and si == 0) else ("after-another-system" if idx == 0 else "after-another-style")
                    ctx.violation("sgr", "C18/sgr/style-%s" % which,
                                  "Style(color=%r, bgcolor=%r, %r) rendered for %s as %r, expected parameters %r (rendered before in this case: %r)" % (fg, bg, one["attrs"], sysname, out, want, rendered_before))
                    return
                rendered_before.append((idx, sysname))
        fg = g.build(spec["fg"])[0] if spec["fg"] else None
        bg = g.build(spec["bg"])[0] if spec["bg"] else None
        if spec.get("siblings") and set(spec["attrs"]) & {a for a, _ in self.ATTR_CODE[4:]}:
            ctx.cls("siblings-with-rare-attributes")
        # a style derived from the one just rendered (base + another style that may carry only a background and a link) has codes of its own
        pl = spec.get("plus")
        if pl:
            other = sut(Style, color=g.build(pl["fg"])[0] if pl["fg"] else None, bgcolor=g.build(pl["bg"])[0] if pl["bg"] else None, link="https://example.org/x" if pl["link"] else None)
            derived = sut(lambda: style + other)
            eff_fg = pl["fg"] or spec["fg"]
            eff_bg = pl["bg"] or spec["bg"]
            for sysname in spec["systems"]:
                system = ColorSystem[sysname]
                out = sut(derived.render, "X", color_system=system, legacy_windows=True)   # legacy_windows: no hyperlink sequence around the text
                want = attr_codes(spec["attrs"])
                for src, is_fg in ((eff_fg, True), (eff_bg, False)):
                    if src:
                        want += list(expected_codes(kind_of(sut(g.build(src)[0].downgrade, system)), is_fg))
                m = re.fullmatch(r"\x1b\[([0-9;]*)mX\x1b\[0m", out)
                got = m.group(1).split(";") if m else (None if out != "X" else [])
                if got != want:
                    ctx.violation("sgr", "C18/sgr/style-derived", "(%r + %r) rendered for %s as %r, expected parameters %r (the left operand had been rendered for %r before)" % (style, other, sysname, out, want, spec["systems"]))
                    return
            ctx.cls("derived-by-addition")
        if fg is not None and bg is not None and fg.type != bg.type and len(set(spec["systems"])) >= 2:
            ctx.nontrivial = True
            ctx.cls("mixed-kinds")


def run_conversions(prog, preempt, tape, problems):
    """Threads convert colours at the same time (two consoles, or direct API use): run under the deterministic scheduler with the conversion caches emptied."""
    import rich.color
    import rich.palette
    from rich.color import Color, ColorSystem
    from ..oracles.sched import Sched, Deadlock

    pals = palettes()
    for fn in (Color.downgrade, Color.parse, Color.get_ansi_codes, rich.palette.Palette.match):
        fn.cache_clear()
    s = Sched(dict((int(a), int(b)) for a, b in preempt), files={rich.color.__file__, rich.palette.__file__}, tape=tape)
    results = []

    def body(ti, ops):
        def run():
            for rgb, sysname in ops:
                c = Color.from_rgb(*rgb)
                d = c.downgrade(ColorSystem[sysname])
                results.append((ti, tuple(rgb), sysname, d))
        return run

    for ti, ops in enumerate(prog["threads"]):
        s.add(body(ti, ops), "T%d" % ti)
    try:
        s.run(timeout=30)
    except Deadlock as e:
        problems.append(("nearest", "C18/concurrent/deadlock", str(e)))
        return s.step, s.switch_in_rich
    for w in s.workers:
        if w.exc is not None:
            problems.append(("nearest", "C18/concurrent/exc-%s" % type(w.exc).__name__, "%s raised %r" % (w.name, w.exc)))
    std, win, eight = pals
    for ti, rgb, sysname, d in results:
        pal = {"STANDARD": std, "WINDOWS": win, "EIGHT_BIT": eight}[sysname]
        if d.number is None or not 0 <= d.number < len(pal):
            problems.append(("gamut", "C18/concurrent/gamut", "thread %d: %r -> %s gave %r (schedule %r)" % (ti, rgb, sysname, d, s.trace[:4])))
            continue
        if sysname != "EIGHT_BIT":
            got, best = dist(rgb, pal[d.number]), min(dist(rgb, p) for p in pal)
            if got != best:
                problems.append(("nearest", "C18/concurrent/nearest", "thread %d: %r -> %s picked %d at distance %d, minimum is %d, while another thread converted another colour (schedule %r)" % (
                    ti, rgb, sysname, d.number, got, best, s.trace[:4])))
    return s.step, s.switch_in_rich


CONCURRENT_PROGRAMS = [
    {"threads": [[[[160, 10, 10], "STANDARD"]], [[[10, 10, 160], "STANDARD"]]]},
    {"threads": [[[[10, 160, 10], "WINDOWS"], [[200, 200, 0], "STANDARD"]], [[[120, 0, 120], "WINDOWS"]], [[[250, 250, 250], "STANDARD"], [[3, 3, 3], "WINDOWS"]]]},
]


class Concurrent(Part):
    name = "concurrent"
    rule = ("threads converting different RGB colours to the 16-colour systems at the same time (conversion caches emptied first), serialised by the deterministic scheduler with "
            "preemption at every line of color.py and palette.py: 2 fixed programs x every single preemption (+ pairs in the thorough tier); every result is an entry of minimum distance for its own colour; non-trivial = the schedule switched threads inside a conversion")
    custom = True
    exhaustive = True
    budget = {"quick": (8, 1), "thorough": (16, 1)}

    def run_shard(self, tier, shard, nshards, seed, stats, deadline, known):
        import time as _t

        n = nt = 0
        found = {}
        jobs = []
        for pi, prog in enumerate(CONCURRENT_PROGRAMS):
            steps, _ = run_conversions(prog, [], [0], [])
            nthreads = len(prog["threads"])
            jobs += [(prog, [(k, c)]) for k in range(steps) for c in range(nthreads - 1)]
            if tier == "thorough":
                jobs += [(prog, [(a, 0), (b, c)]) for a in range(0, steps, 2) for b in range(a + 1, steps, 3) for c in range(nthreads - 1)][:8000]
        for ji, (prog, sch) in enumerate(jobs):
            if ji % nshards != shard:
                continue
            if _t.time() > deadline:
                stats.capped = True
                break
            probs = []
            _, sw = run_conversions(prog, sch, [0, 1, 2], probs)
            n += 1
            nt += 1 if sw else 0
            for clause, sig, detail in probs:
                if sig not in found:
                    found[sig] = ({"prog": prog, "preempt": [list(x) for x in sch], "tape": [0, 1, 2]}, clause, detail)
        stats.evaluations += n
        stats.nontrivial_count_distinct += nt
        if not stats.capped:
            stats.done += 1
        stats.samples.append((1, {"shard": shard, "schedules_run": n, "example": {"prog": CONCURRENT_PROGRAMS[0], "preempt": [[12, 0]]}}, "range"))
        for sig, (spec, clause, detail) in found.items():
            e = known.match(sig)
            if e:
                stats.excluded_known[e["id"]] = stats.excluded_known.get(e["id"], 0) + 1
                continue
            stats.found[sig] = {"spec": spec, "clause": clause, "detail": detail, "size": 1, "part": self.name}

    def replay(self, spec, ctx):
        probs = []
        run_conversions(spec["prog"], spec["preempt"], spec["tape"], probs)
        for clause, sig, detail in probs:
            ctx.violation(clause, sig, detail)


class ConcurrentGenerated(Part):
    name = "concurrent-generated"
    rule = ("generated programs (2-4 threads x 1-3 conversions of generated RGB colours to standard / windows / 256) x generated schedules (<= 4 preemptions, tie-break tape) "
            "under the same scheduler; non-trivial = the schedule switched threads inside a conversion and two threads target the same 16-colour system")
    budget = {"quick": (8, 150), "thorough": (16, 3000)}

    def strategy(self, tier):
        byte = st.one_of(st.integers(0, 255), st.sampled_from(BOUNDARY))
        conv = st.tuples(st.tuples(byte, byte, byte).map(list), st.sampled_from(["STANDARD", "WINDOWS", "STANDARD", "EIGHT_BIT"])).map(list)
        prog = st.lists(st.lists(conv, min_size=1, max_size=3), min_size=2, max_size=4).map(lambda t: {"threads": t})
        pre = st.lists(st.tuples(st.integers(0, 400), st.integers(0, 3)).map(list), min_size=1, max_size=4)
        return st.builds(lambda p, pre, tape: {"prog": p, "preempt": pre, "tape": tape}, prog, pre, st.lists(st.integers(0, 3), min_size=1, max_size=4))

    def check(self, spec, ctx):
        probs = []
        _, sw = run_conversions(spec["prog"], spec["preempt"], spec["tape"], probs)
        for clause, sig, detail in probs:
            ctx.violation(clause, sig, detail)
        targets = [set(sysname for _, sysname in ops if sysname != "EIGHT_BIT") for ops in spec["prog"]["threads"]]
        if sw and any(a & b for i, a in enumerate(targets) for b in targets[i + 1:]):
            ctx.nontrivial = True


class FirstUseInterrupted(Part):
    name = "first-use-interrupted"
    custom = True
    exhaustive = True
    rule = ("in a fresh interpreter the first colour conversion of the process (an indexed or an RGB colour to standard / windows) is aborted by a KeyboardInterrupt raised at the K-th "
            "executed line of color.py / palette.py, K = 1..48 (quick: every third) ; the program goes on and converts all 240 indexed and 216 grid colours: every result is a nearest "
            "entry; non-trivial = the interrupt fell inside the conversion")
    budget = {"quick": (16, 1), "thorough": (16, 1)}

    def run_shard(self, tier, shard, nshards, seed, stats, deadline, known):
        import json
        import os
        import subprocess
        import sys
        import time as _t

        here = os.path.dirname(os.path.dirname(os.path.abspath(__file__)))
        jobs = [(k, first, sysname) for k in range(1, 49, 3 if tier == "quick" else 1) for first in ("indexed", "rgb") for sysname in ("STANDARD", "WINDOWS")]
        n = nt = 0
        for ji, (k, first, sysname) in enumerate(jobs):
            if ji % nshards != shard:
                continue
            if _t.time() > deadline:
                stats.capped = True
                break
            p = subprocess.run([sys.executable, "-B", os.path.join(here, "first_use_c18.py"), str(k), first, sysname], stdout=subprocess.PIPE, stderr=subprocess.PIPE, text=True, timeout=120,
                               env=dict(os.environ, PYTHONHASHSEED="0"))
            if p.returncode != 0:
                stats.harness_error = "first_use_c18.py failed: %s" % p.stderr[-400:]
                break
            res = json.loads(p.stdout.strip().splitlines()[-1])
            n += 1
            nt += 1 if res["interrupted"] else 0
            if res["problems"] and "C18/firstuse/wrong-after-interrupt" not in stats.found and not known.match("C18/firstuse/wrong-after-interrupt"):
                stats.found["C18/firstuse/wrong-after-interrupt"] = {"spec": {"k": k, "first": first, "system": sysname}, "clause": "nearest", "size": 1, "part": self.name,
                                                                    "detail": "after the first conversion (%s -> %s) was interrupted at line %d: %s" % (first, sysname, k, "; ".join(res["problems"]))}
        stats.evaluations += n
        stats.nontrivial_count_distinct += nt
        if not stats.capped:
            stats.done += 1
        stats.samples.append((1, {"shard": shard, "processes": n, "example": {"k": 20, "first": "indexed", "system": "STANDARD"}}, "range"))

    def replay(self, spec, ctx):
        import json
        import os
        import subprocess
        import sys

        here = os.path.dirname(os.path.dirname(os.path.abspath(__file__)))
        p = subprocess.run([sys.executable, "-B", os.path.join(here, "first_use_c18.py"), str(spec["k"]), spec["first"], spec["system"]], stdout=subprocess.PIPE, stderr=subprocess.PIPE, text=True, timeout=120)
        res = json.loads(p.stdout.strip().splitlines()[-1])
        if res["problems"]:
            ctx.violation("nearest", "C18/firstuse/wrong-after-interrupt", "; ".join(res["problems"]))


class Enumerated(Part):
    name = "enumerated"
    custom = True
    exhaustive = True
    rule = ("quick: 17^3 RGB grid + 15^3 boundary lattice + all 256 indexed + default; thorough: all 16,777,216 RGB colours (sharded by red channel) "
            "+ 256 indexed + default; each x {standard, 256, truecolor, windows}; minimum distance recomputed with vectorised integer arithmetic; "
            "non-trivial (distinct by construction) = colours whose two best standard-palette distances differ by <5%")
    budget = {"quick": (16, 1), "thorough": (16, 1)}

    def colours(self, tier, shard, nshards):
        if tier == "thorough":
            for r in range(shard, 256, nshards):
                for g in range(256):
                    for b in range(256):
                        yield (r, g, b)
        else:
            grid = [min(255, i * 16) for i in range(17)]
            vals = []
            for r in grid:
                for g in grid:
                    for b in grid:
                        vals.append((r, g, b))
            for r in BOUNDARY:
                for g in BOUNDARY:
                    for b in BOUNDARY:
                        vals.append((r, g, b))
            vals = sorted(set(vals))
            for i in range(shard, len(vals), nshards):
                yield vals[i]

    def run_shard(self, tier, shard, nshards, seed, stats, deadline, known):
        import time
        from rich.color import Color

        try:
            import numpy as np
        except Exception:  # noqa
            np = None
        pals = palettes()
        ctx = Ctx()
        n = 0
        nt = 0
        failing = None
        batch = []

        def flush():
            nonlocal n, nt, failing
            if not batch:
                return
            minds = {}
            if np is not None:
                arr = np.array(batch, dtype=np.int64)
                for sysname, pal in (("STANDARD", pals[0]), ("WINDOWS", pals[1])):
                    p = np.array(pal, dtype=np.int64)
                    rm = (arr[:, None, 0] + p[None, :, 0]) // 2
                    dr = arr[:, None, 0] - p[None, :, 0]
                    dg = arr[:, None, 1] - p[None, :, 1]
                    db = arr[:, None, 2] - p[None, :, 2]
                    dm = (((512 + rm) * dr * dr) >> 8) + 4 * dg * dg + (((767 - rm) * db * db) >> 8)
                    dm.sort(axis=1)
                    minds[sysname] = dm[:, 0]
                    if sysname == "STANDARD":
                        nt += int(((dm[:, 1] > 0) & ((dm[:, 1] - dm[:, 0]) * 20 <= dm[:, 1])).sum())
            for i, rgb in enumerate(batch):
                color = Color.from_rgb(*rgb)
                for sysname in SYSTEMS:
                    md = int(minds[sysname][i]) if sysname in minds else None
                    check_one(ctx, color, rgb, sysname, pals, md)
                    n += 1
                if np is None and near_boundary(rgb, pals):
                    nt += 1
                if ctx.violations and failing is None:
                    failing = rgb
                    return
            del batch[:]

        for rgb in self.colours(tier, shard, nshards):
            batch.append(rgb)
            if len(batch) >= 8192:
                flush()
                if failing:
                    break
                if time.time() > deadline:
                    stats.capped = True
                    break
        if not failing:
            flush()
        if shard == 0 and not failing:
            for idx in range(256):
                c = Color.from_ansi(idx)
                check_codes(ctx, c)
                for sysname in SYSTEMS:
                    d = check_one(ctx, c, pals[2][idx], sysname, pals)
                    check_codes(ctx, d)
                    n += 1
                if ctx.violations and failing is None:
                    failing = ("idx", idx)
                    break
            c = Color.default()
            check_codes(ctx, c)
            for sysname in SYSTEMS:
                check_one(ctx, c, None, sysname, pals)
                n += 1
        stats.evaluations += n
        stats.nontrivial_count_distinct += nt
        if not stats.capped:
            stats.done += 1
        stats.samples.append((1, {"shard": shard, "conversions": n, "first": list(next(iter(self.colours(tier, shard, nshards))))}, "range"))
        for v in ctx.violations:
            if v.sig not in stats.found:
                spec = {"rgb": list(failing)} if failing and failing[0] != "idx" else {"idx": failing[1] if failing else 0}
                stats.found[v.sig] = {"spec": spec, "clause": v.clause, "detail": v.detail, "size": 1, "part": self.name}

    def replay(self, spec, ctx):
        from rich.color import Color

        pals = palettes()
        if "rgb" in spec:
            c = Color.from_rgb(*spec["rgb"])
            rgb = tuple(spec["rgb"])
        else:
            c = Color.from_ansi(spec["idx"])
            rgb = pals[2][spec["idx"]]
        check_codes(ctx, c)
        for sysname in SYSTEMS:
            d = check_one(ctx, c, rgb, sysname, pals)
            check_codes(ctx, d)


class SixteenAll(Part):
    name = "sixteen-all"
    custom = True
    exhaustive = True
    rule = ("quick tier only (the thorough `enumerated` part covers it): all 16,777,216 RGB colours (sharded by red channel) x {standard, windows}: the result is one of the 16 entries "
            "and no entry of that palette is nearer (minimum distance recomputed with vectorised integer arithmetic); non-trivial (distinct by construction) = colours whose two best "
            "standard-palette distances differ by <5%")
    budget = {"quick": (16, 1), "thorough": (0, 0)}

    def run_shard(self, tier, shard, nshards, seed, stats, deadline, known):
        import time
        from rich.color import Color, ColorSystem, ColorType

        try:
            import numpy as np
        except Exception:  # noqa
            stats.samples.append((1, {"shard": shard, "skipped": "numpy not importable: the full sweep is left to the thorough tier"}, "range"))
            stats.done += 1
            return
        pals = palettes()
        ctx = Ctx()
        systems = [("STANDARD", ColorSystem.STANDARD, np.array(pals[0], dtype=np.int64), pals[0]), ("WINDOWS", ColorSystem.WINDOWS, np.array(pals[1], dtype=np.int64), pals[1])]
        n = nt = 0
        failing = None
        gb = np.array([(g, b) for g in range(256) for b in range(256)], dtype=np.int64)
        from_rgb = Color.from_rgb
        for r in range(shard, 256, nshards):
            minds = []
            for sysname, system, p, pal in systems:
                rm = (r + p[None, :, 0]) // 2
                dr = r - p[None, :, 0]
                dg = gb[:, None, 0] - p[None, :, 1]
                db = gb[:, None, 1] - p[None, :, 2]
                dm = (((512 + rm) * dr * dr) >> 8) + 4 * dg * dg + (((767 - rm) * db * db) >> 8)
                if sysname == "STANDARD":
                    srt = np.sort(dm, axis=1)
                    nt += int(((srt[:, 1] > 0) & ((srt[:, 1] - srt[:, 0]) * 20 <= srt[:, 1])).sum())
                    minds.append((dm, srt[:, 0]))
                else:
                    minds.append((dm, dm.min(axis=1)))
            for (sysname, system, p, pal), (dm, mn) in zip(systems, minds):
                mn = mn.tolist()
                i = 0
                for g in range(256):
                    for b in range(256):
                        color = from_rgb(r, g, b)
                        try:
                            d = color.downgrade(system)
                        except Exception as exc:  # noqa
                            ctx.violation("unexpected-exception", "C18/exc/%s" % type(exc).__name__, "%r -> %s raised %r" % (color, sysname, exc))
                            failing = (r, g, b)
                            break
                        num = d.number
                        if d.type not in (ColorType.STANDARD, ColorType.WINDOWS) or num is None or not 0 <= num <= 15:
                            ctx.violation("gamut", "C18/gamut/%s" % sysname.lower(), "%r -> %s gave %r" % (color, sysname, d))
                            failing = (r, g, b)
                            break
                        if dm[i, num] != mn[i]:
                            ctx.violation("nearest", "C18/nearest/%s" % sysname.lower(), "%r -> %s picked %d at distance %d, minimum is %d" % (color, sysname, num, int(dm[i, num]), mn[i]))
                            failing = (r, g, b)
                            break
                        i += 1
                    if failing:
                        break
                n += i
                if failing:
                    break
            if failing:
                break
            if time.time() > deadline:
                stats.capped = True
                break
        stats.evaluations += n
        stats.nontrivial_count_distinct += nt
        if not stats.capped:
            stats.done += 1
        stats.samples.append((1, {"shard": shard, "conversions": n, "red": "%d, %d, ..." % (shard, shard + nshards)}, "range"))
        for v in ctx.violations:
            if v.sig not in stats.found:
                stats.found[v.sig] = {"spec": {"rgb": list(failing)}, "clause": v.clause, "detail": v.detail, "size": 1, "part": self.name}

    def replay(self, spec, ctx):
        return Enumerated().replay(spec, ctx)


PARTS = [Generated(), Enumerated(), SixteenAll(), StyleCodes(), Concurrent(), ConcurrentGenerated(), FirstUseInterrupted()]
