"""C06 - styles form a consistent algebra, round-trip through text, and hash consistently."""
from hypothesis import strategies as st

from ..core import Part, sut, SutError
from ..gen import styles as GS

PROP_ID = "C06"
LEVEL = "exploration"
RULE = "Hypothesis-generated style specs (13 tri-state attributes x colour forms x link); distinctness = hash of the canonical JSON spec"
ASSUMPTIONS = [
    "links are non-empty and whitespace-free; rgb() is written without inner spaces (the documented spelling) - DESIGN 7.5",
    "spellings are the lower-case ones listed in docs/source/style.rst; each attribute / colour / link occurs at most once per definition",
    "field-wise comparison ignores the colour's *name* (red vs color(1)); equality itself is rich's ==",
]

ALIASES = {"bold": ["bold", "b"], "italic": ["italic", "i"], "reverse": ["reverse", "r"], "strike": ["strike", "s"], "underline": ["underline", "u"],
           "underline2": ["underline2", "uu"], "overline": ["overline", "o"], "dim": ["dim"], "blink": ["blink"], "blink2": ["blink2"],
           "conceal": ["conceal"], "frame": ["frame"], "encircle": ["encircle"]}


def nonnull(spec):
    return bool(spec["attrs"]) or spec["color"] or spec["bgcolor"] or spec["link"]


class Algebra(Part):
    name = "algebra"
    rule = ("triples (a, b, c) of style specs: associativity, null identity (4 spellings of null), field-wise right bias against a dict merge, "
            "Style.combine/chain; non-trivial = all three non-null and at least one field set by two of them")
    budget = {"quick": (5, 3000), "thorough": (16, 30000)}

    def strategy(self, tier):
        s = GS.style_spec()
        return st.builds(lambda a, b, c, n: {"a": a, "b": b, "c": c, "null": n}, s, s, s, st.sampled_from(["ctor", "null()", "none", "empty"]))

    def check(self, spec, ctx):
        from rich.style import Style

        a, b, c = (sut(GS.build_style, spec[k]) for k in "abc")
        null = {"ctor": lambda: Style(), "null()": Style.null, "none": lambda: Style.parse("none"), "empty": lambda: Style.parse("")}[spec["null"]]()
        ab = sut(lambda: a + b)
        left = sut(lambda: (a + b) + c)
        right = sut(lambda: a + (b + c))
        if not (left == right):
            ctx.violation("associative", "C06/assoc/eq", "(a+b)+c=%r, a+(b+c)=%r for %r" % (left, right, spec))
        if GS.style_view(left) != GS.style_view(right):
            ctx.violation("associative", "C06/assoc/view", "(a+b)+c=%r, a+(b+c)=%r" % (left, right))
        for x in (a, b, ab):
            if not (sut(lambda: x + null) == x and sut(lambda: null + x) == x):
                ctx.violation("identity", "C06/identity/" + spec["null"], "%r + null or null + it != it" % (x,))
            if not (sut(lambda: x + None) == x):
                ctx.violation("identity", "C06/identity/None", "%r + None != it" % (x,))
        want = GS.spec_view(GS.merge(spec["a"], spec["b"]))
        if GS.style_view(ab) != want:
            ctx.violation("right-bias", "C06/bias/add", "a+b=%r view %r, expected %r" % (ab, GS.style_view(ab), want))
        want3 = GS.spec_view(GS.merge(spec["a"], spec["b"], spec["c"]))
        for name, val in (("combine", sut(Style.combine, [a, b, c])), ("chain", sut(Style.chain, a, b, c)), ("sum", left)):
            if GS.style_view(val) != want3:
                ctx.violation("right-bias", "C06/bias/" + name, "%s gave %r view %r, expected %r" % (name, val, GS.style_view(val), want3))
        # bool(): a style is false iff nothing is set
        if bool(ab) != bool(nonnull(GS.merge(spec["a"], spec["b"]))):
            ctx.violation("identity", "C06/identity/bool", "bool(%r) is %r" % (ab, bool(ab)))
        if all(nonnull(spec[k]) for k in "abc"):
            keys = []
            for k in "abc":
                s = spec[k]
                keys.append(set(s["attrs"]) | {f for f in ("color", "bgcolor", "link") if s[f] is not None})
            if (keys[0] & keys[1]) or (keys[1] & keys[2]) or (keys[0] & keys[2]):
                ctx.nontrivial = True
                ctx.cls("overlapping-fields")


def spell(spec, draw_order, alias_pick, spaces):
    """Write a definition for `spec` using documented spellings in the given word-group order."""
    groups = []
    for i, (k, v) in enumerate(sorted(spec["attrs"].items())):
        al = ALIASES[k]
        w = al[alias_pick[i % len(alias_pick)] % len(al)]
        groups.append(w if v else "not " + w)
    if spec["color"] is not None:
        groups.append(spec["color"])
    if spec["bgcolor"] is not None:
        groups.append("on " + (spec["bgcolor"].upper() if (spec["bgcolor"].startswith("#") and sum(draw_order) % 2) else spec["bgcolor"]))
    if spec["link"] is not None:
        groups.append("link " + spec["link"])
    order = sorted(range(len(groups)), key=lambda i: draw_order[i % len(draw_order)] * 100 + i)
    words = " ".join(groups[i] for i in order).split(" ")
    out = ""
    for i, w in enumerate(words):
        out += w + (" " * (1 + spaces[i % len(spaces)]) if i < len(words) - 1 else "")
    return out


# definitions that are rejected after some of their words were understood
BAD_DEFINITIONS = ["bold nosuchcolour", "not b on", "u repr.number", "italic link", "strike rgb(1,2)", "on red on", "dim not", "reverse #12", "blink2 color(999)", "overline link https://x.example zzz"]


class RoundTrip(Part):
    name = "roundtrip"
    rule = ("one style spec: parse(str(s)) == s, parse(normalize(str(s))) == s, and a definition written with documented spellings (aliases, "
            "'not X', colour forms, 'on C', 'link URL', random word-group order, extra whitespace) parses to the keyword-built style, also right after a rejected definition; "
            "non-trivial = >=2 attributes (one negated or aliased) plus a colour or link")
    budget = {"quick": (5, 3000), "thorough": (16, 30000)}

    def strategy(self, tier):
        ints = st.lists(st.integers(0, 9), min_size=1, max_size=8)
        derive = st.sampled_from(["none", "copy", "without_color", "update_link", "update_link_none", "add", "background_style"])
        return st.builds(lambda s, o, al, sp, lead, warm, d, other, bad: {"s": s, "order": o, "alias": al, "spaces": sp, "lead": lead, "warm": warm, "derive": d, "other": other, "bad": bad},
                         GS.style_spec(), ints, ints, st.lists(st.integers(0, 2), min_size=1, max_size=5), st.booleans(), st.booleans(), derive, st.sampled_from(GS.PALETTE),
                         st.one_of(st.none(), st.integers(0, len(BAD_DEFINITIONS) - 1)))

    def check(self, spec, ctx):
        from rich.style import Style

        s = spec["s"]
        style = sut(GS.build_style, s)
        text = sut(str, style)
        # definitions that differ from this one only in letter case (URLs are case sensitive) are normalised first: their results must not stand in for ours
        for twin in (text.lower(), text.upper(), text.swapcase()):
            if twin != text:
                sut(Style.normalize, twin)
        back = sut(Style.parse, text)
        if not (back == style):
            ctx.violation("roundtrip", "C06/roundtrip/str", "parse(str(s)) = %r != %r (str %r)" % (back, style, text))
        norm = sut(Style.normalize, text)
        back2 = sut(Style.parse, norm)
        if not (back2 == style):
            ctx.violation("roundtrip", "C06/roundtrip/normalize", "parse(normalize(%r)=%r) = %r != %r" % (text, norm, back2, style))
        if GS.style_view(back) != GS.spec_view(s):
            ctx.violation("roundtrip", "C06/roundtrip/view", "parse(str(s)) has fields %r, expected %r" % (GS.style_view(back), GS.spec_view(s)))
        # styles derived from one whose string form may already be cached must describe themselves, not their source
        src = sut(GS.build_style, s)
        if spec.get("warm"):
            sut(str, src)
            sut(repr, src)
            sut(Style.normalize, str(src))
        how = spec.get("derive", "none")
        if how != "none":
            if how == "copy":
                d, exp = sut(src.copy), s
            elif how == "without_color":
                d, exp = sut(lambda: src.without_color), dict(s, color=None, bgcolor=None)
            elif how == "update_link":
                d, exp = sut(src.update_link, "https://n.example/new"), dict(s, link="https://n.example/new")
            elif how == "update_link_none":
                d, exp = sut(src.update_link, None), dict(s, link=None)
            elif how == "add":
                d, exp = sut(lambda: src + GS.build_style(spec["other"])), GS.merge(s, spec["other"])
            else:
                d, exp = sut(lambda: src.background_style), {"attrs": {}, "color": None, "bgcolor": s["bgcolor"], "link": None}
            dtext = sut(str, d)
            dback = sut(Style.parse, dtext)
            if GS.style_view(d) != GS.spec_view(exp):
                ctx.violation("route", "C06/route/" + how, "%s of %r has fields %r, expected %r" % (how, src, GS.style_view(d), GS.spec_view(exp)))
            elif not (dback == d) or GS.style_view(dback) != GS.spec_view(exp):
                ctx.violation("roundtrip", "C06/roundtrip/derived-" + how, "%s of %r (string form cached before: %r): str() = %r parses to %r, not to the style itself %r" % (how, src, bool(spec.get("warm")), dtext, GS.style_view(dback), GS.style_view(d)))
            dn = sut(Style.parse, sut(Style.normalize, dtext))
            if not (dn == d) and not ctx.violations:
                ctx.violation("roundtrip", "C06/roundtrip/derived-normalize-" + how, "normalize(str(%s of %r)) parses to another style" % (how, src))
            ctx.cls("derive:" + how + (":warm" if spec.get("warm") else ""))
        # other documented ways of giving the same colours: Color objects built from numbers, and hex digits in upper case
        from rich.color import Color

        def alt(c, mode):
            if c and c.startswith("#"):
                if mode == 0:
                    return Color.from_rgb(int(c[1:3], 16), int(c[3:5], 16), int(c[5:7], 16))
                if mode == 1:
                    return Color.from_triplet(Color.parse(c).triplet)
                return c.upper()
            if c and c.startswith("rgb(") and mode == 2:
                return c.upper()
            return c

        if (s["color"] or "").startswith(("#", "rgb(")) or (s["bgcolor"] or "").startswith(("#", "rgb(")):
            for mode in (0, 1, 2):
                other_way = sut(Style, color=alt(s["color"], mode), bgcolor=alt(s["bgcolor"], mode), link=s["link"], **s["attrs"])
                if not (other_way == style) or hash(other_way) != hash(style):
                    ctx.violation("spelling", "C06/spelling/colour-object", "the style built with %s for its colours is not equal (or hashes differently) to the one built from %r / %r" % (
                        ["Color.from_rgb", "Color.from_triplet", "upper-case spelling"][mode], s["color"], s["bgcolor"]))
                    break
                t2 = sut(str, other_way)
                try:
                    b2 = Style.parse(t2)
                except Exception as e:  # noqa
                    ctx.violation("roundtrip", "C06/roundtrip/colour-object", "str() of the style built with %s is %r, which does not parse: %r" % (["Color.from_rgb", "Color.from_triplet", "upper-case spelling"][mode], t2, e))
                    break
                if not (b2 == style):
                    ctx.violation("roundtrip", "C06/roundtrip/colour-object", "str() of the style built with %s is %r, which parses to another style" % (["Color.from_rgb", "Color.from_triplet", "upper-case spelling"][mode], t2))
                    break
            ctx.cls("colours-given-another-way")
        definition = spell(s, spec["order"], spec["alias"], spec["spaces"])
        if spec.get("bad") is not None:
            # history: a definition was rejected just before (what it had understood up to the error must not carry over)
            from rich.errors import StyleSyntaxError

            try:
                Style.parse(BAD_DEFINITIONS[spec["bad"]])
            except StyleSyntaxError:
                pass
            except Exception as e:  # noqa
                raise SutError(e)
            ctx.cls("after-a-rejected-definition")
        if spec["lead"]:
            definition = " " + definition + " "
        if definition.strip():
            parsed = sut(Style.parse, definition)
            if GS.style_view(parsed) != GS.spec_view(s):
                ctx.violation("spelling", "C06/spelling/fields", "parse(%r) has fields %r, expected %r" % (definition, GS.style_view(parsed), GS.spec_view(s)))
            if not (parsed == style):
                ctx.violation("spelling", "C06/spelling/eq", "parse(%r) = %r != keyword-built %r" % (definition, parsed, style))
            n2 = sut(Style.normalize, definition)
            if not (sut(Style.parse, n2) == style):
                ctx.violation("spelling", "C06/spelling/normalize", "normalize(%r)=%r parses to another style" % (definition, n2))
        if len(s["attrs"]) >= 2 and (s["color"] or s["bgcolor"] or s["link"]) and (False in s["attrs"].values() or any(len(ALIASES[k]) > 1 for k in s["attrs"])):
            ctx.nontrivial = True


class Hashing(Part):
    name = "hashing"
    rule = ("one target style reached by up to 12 construction routes (keywords, parse(str), parse(normalize), sums of a generated partition, combine, "
            "chain, copy, update_link, without_color, from_color, null+s, s+null); for every pair x == y requires hash(x) == hash(y) and dict lookup; "
            "non-trivial = >=2 routes of different kinds compared equal for a non-null style")
    budget = {"quick": (5, 3000), "thorough": (16, 30000)}

    def strategy(self, tier):
        return st.builds(lambda s, cut, extra: {"s": s, "cut": cut, "extra": extra}, GS.style_spec(), st.lists(st.integers(0, 2), min_size=1, max_size=6), GS.color_spec())

    def check(self, spec, ctx):
        from rich.style import Style
        from rich.color import Color

        s = spec["s"]
        spaced = bool(s["link"]) and spec["cut"][0] == 2 and len(spec["cut"]) % 2 == 0
        if spaced:
            # a link given to the constructor with white space around it cannot be written as a definition, but every other route must agree on it
            s = dict(s, link=" " + s["link"] + "\n")
            ctx.cls("link-with-surrounding-space")
        routes = []
        kw = sut(GS.build_style, s)
        routes.append(("kw", kw))
        if not spaced:
            routes.append(("parse", sut(Style.parse, str(kw))))
            routes.append(("normalize", sut(Style.parse, Style.normalize(str(kw)))))
        # partition the set fields into up to 3 partial specs
        fields = [("a", k) for k in sorted(s["attrs"])] + [("f", f) for f in ("color", "bgcolor", "link") if s[f] is not None]
        parts = [{"attrs": {}, "color": None, "bgcolor": None, "link": None} for _ in range(3)]
        for i, (kind, k) in enumerate(fields):
            p = parts[spec["cut"][i % len(spec["cut"])]]
            if kind == "a":
                p["attrs"][k] = s["attrs"][k]
            else:
                p[k] = s[k]
        built = [sut(GS.build_style, p) for p in parts]
        routes.append(("sum", sut(lambda: built[0] + built[1] + built[2])))
        routes.append(("sum-right", sut(lambda: built[0] + (built[1] + built[2]))))
        routes.append(("combine", sut(Style.combine, built)))
        routes.append(("chain", sut(Style.chain, *built)))
        routes.append(("copy", sut(kw.copy)))
        routes.append(("null+s", sut(lambda: Style() + kw)))
        routes.append(("s+null", sut(lambda: kw + Style())))
        nolink = dict(s, link=None)
        if s["link"]:
            routes.append(("update_link", sut(sut(GS.build_style, nolink).update_link, s["link"])))
        else:
            routes.append(("update_link", sut(sut(GS.build_style, dict(s, link="https://x.example")).update_link, None)))
        if s["color"] is None and s["bgcolor"] is None:
            routes.append(("without_color", sut(lambda: sut(GS.build_style, dict(s, color=spec["extra"], bgcolor="blue")).without_color)))
        if not s["attrs"] and not s["link"]:
            c = Color.parse(s["color"]) if s["color"] else None
            b = Color.parse(s["bgcolor"]) if s["bgcolor"] else None
            routes.append(("from_color", sut(Style.from_color, c, b)))
        equal_pairs = 0
        for i, (n1, x) in enumerate(routes):
            for n2, y in routes[i + 1:]:
                if x == y:
                    equal_pairs += 1
                    if hash(x) != hash(y):
                        ctx.violation("hash", "C06/hash/%s" % "+".join(sorted([n1.split("-")[0], n2.split("-")[0]])), "%s %r == %s %r but hashes differ" % (n1, x, n2, y))
                        return
                    try:
                        ok = {x: 1}[y] == 1
                    except KeyError:
                        ok = False
                    if not ok:
                        ctx.violation("hash", "C06/hash/dict", "%s %r not found under equal key %s %r" % (n2, y, n1, x))
                        return
        for n, x in routes:
            if GS.style_view(x) != GS.spec_view(s):
                ctx.violation("route", "C06/route/" + n.split("-")[0], "route %s built %r with fields %r, expected %r" % (n, x, GS.style_view(x), GS.spec_view(s)))
                return
        if nonnull(s) and equal_pairs >= 3:
            ctx.nontrivial = True
        for n, _ in routes:
            ctx.cls("route:" + n)



def run_strings(prog, preempt, tape, problems):
    """Threads ask for the string form / normalised form of one shared style at the same time (parsed styles are shared objects)."""
    import rich.style
    from rich.style import Style
    from ..oracles.sched import Sched, Deadlock

    Style.parse.cache_clear()
    Style.normalize.cache_clear()
    spec = prog["style"]
    shared = GS.build_style(spec)
    s = Sched(dict((int(a), int(b)) for a, b in preempt), files={rich.style.__file__}, tape=tape)
    results = []

    def body(ti, ops):
        def run():
            for op in ops:
                if op == "str":
                    results.append((ti, op, str(shared)))
                elif op == "repr":
                    r = repr(shared)
                    results.append((ti, op, r[len('Style.parse("'):-2] if r.startswith('Style.parse("') else None))
                elif op == "normalize":
                    results.append((ti, op, Style.normalize(str(shared))))
                else:
                    results.append((ti, op, str(shared.copy())))
        return run

    for ti, ops in enumerate(prog["threads"]):
        s.add(body(ti, ops), "T%d" % ti)
    try:
        s.run(timeout=30)
    except Deadlock as e:
        problems.append(("roundtrip", "C06/concurrent/deadlock", str(e)))
        return s.step, s.switch_in_rich
    for w in s.workers:
        if w.exc is not None:
            problems.append(("roundtrip", "C06/concurrent/exc-%s" % type(w.exc).__name__, "%s raised %r" % (w.name, w.exc)))
    want = GS.spec_view(spec)
    for ti, op, text in results + [(-1, "str-afterwards", str(shared)), (-1, "normalize-afterwards", Style.normalize(str(shared)))]:
        if text is None:
            continue
        try:
            got = GS.style_view(Style.parse(text))
        except Exception as e:  # noqa
            got = "unparseable: %r" % (e,)
        if got != want:
            problems.append(("roundtrip", "C06/concurrent/%s" % op.split("-")[0], "thread %d: %s of the shared style gave %r, which parses to %r instead of %r (schedule %r)" % (ti, op, text, got, want, s.trace[:4])))
            break
    return s.step, s.switch_in_rich


STRING_PROGRAMS = [
    {"style": {"attrs": {"bold": True}, "color": "red", "bgcolor": None, "link": "https://example.org/a"}, "threads": [["str"], ["normalize"]]},
    {"style": {"attrs": {}, "color": None, "bgcolor": "blue", "link": "https://example.org/b"}, "threads": [["str", "copy"], ["str"], ["repr"]]},
    {"style": {"attrs": {"italic": False, "underline": True}, "color": "#00ff00", "bgcolor": None, "link": None}, "threads": [["normalize"], ["str"]]},
]


class ConcurrentStrings(Part):
    name = "concurrent-strings"
    custom = True
    exhaustive = True
    rule = ("3 fixed programs: 2-3 threads ask for str() / repr() / normalize() / str(copy()) of one shared style (with and without a link) at the same time, serialised by the "
            "deterministic scheduler with preemption at every line of style.py; every single preemption (+ pairs in the thorough tier): each string obtained, and the string "
            "form afterwards, parses back to the style; non-trivial = the schedule switched threads inside style.py")
    budget = {"quick": (8, 1), "thorough": (16, 1)}

    def run_shard(self, tier, shard, nshards, seed, stats, deadline, known):
        import time as _t

        n = nt = 0
        found = {}
        jobs = []
        for pi, prog in enumerate(STRING_PROGRAMS):
            steps, _ = run_strings(prog, [], [0], [])
            nthreads = len(prog["threads"])
            jobs += [(pi, [(k, c)]) for k in range(steps) for c in range(nthreads - 1)]
            if tier == "thorough":
                jobs += [(pi, [(a, 0), (b, c)]) for a in range(0, steps, 2) for b in range(a + 1, steps, 3) for c in range(nthreads - 1)][:8000]
        for ji, (pi, sch) in enumerate(jobs):
            if ji % nshards != shard:
                continue
            if _t.time() > deadline:
                stats.capped = True
                break
            probs = []
            _, sw = run_strings(STRING_PROGRAMS[pi], sch, [0, 1, 2], probs)
            n += 1
            nt += 1 if sw else 0
            for clause, sig, detail in probs:
                if sig not in found:
                    found[sig] = ({"program": pi, "preempt": [list(x) for x in sch], "tape": [0, 1, 2]}, clause, detail)
        stats.evaluations += n
        stats.nontrivial_count_distinct += nt
        if not stats.capped:
            stats.done += 1
        stats.samples.append((1, {"shard": shard, "schedules_run": n, "example": {"program": 0, "preempt": [[9, 0]]}}, "range"))
        for sig, (spec, clause, detail) in found.items():
            e = known.match(sig)
            if e:
                stats.excluded_known[e["id"]] = stats.excluded_known.get(e["id"], 0) + 1
                continue
            stats.found[sig] = {"spec": spec, "clause": clause, "detail": detail, "size": 1, "part": self.name}

    def replay(self, spec, ctx):
        probs = []
        run_strings(STRING_PROGRAMS[spec["program"]], spec["preempt"], spec["tape"], probs)
        for clause, sig, detail in probs:
            ctx.violation(clause, sig, detail)


class ObjectHistories(Part):
    name = "object-histories"
    rule = ("a pool of 3 style objects and 4-12 operations on pool members, each result joining the pool: a + b, a.update_link(url / None), a.copy(), a.without_color, "
            "Style.parse(str(a)), Style.combine / chain of members, rendering a member (which fills its caches); after every operation the result and every pool member "
            "(operands are reused by identity) is compared field by field with a reference merge on plain dicts, equal members must hash equally; non-trivial = a sum "
            "whose operands were both used in an earlier sum or derivation")
    budget = {"quick": (8, 1500), "thorough": (16, 15000)}

    def strategy(self, tier):
        i = st.integers(0, 11)
        link = st.sampled_from(["https://a.example", "https://b.example/x", None])
        op = st.one_of(st.tuples(st.just("add"), i, i), st.tuples(st.just("add"), i, i), st.tuples(st.just("add"), st.integers(0, 3), st.integers(0, 3)), st.tuples(st.just("link"), i, link), st.tuples(st.just("link"), st.integers(0, 3), link),
                       st.tuples(st.just("copy"), i), st.tuples(st.just("nocolor"), i), st.tuples(st.just("reparse"), i), st.tuples(st.just("combine"), st.lists(i, min_size=1, max_size=3)), st.tuples(st.just("render"), i)).map(list)
        sp = st.one_of(st.sampled_from(GS.PALETTE), GS.style_spec(max_attrs=3), GS.style_spec(max_attrs=3, links=False))
        return st.builds(lambda pool, ops: {"pool": pool, "ops": ops}, st.lists(sp, min_size=3, max_size=3), st.lists(op, min_size=4, max_size=12))

    def check(self, spec, ctx):
        from rich.style import Style
        from rich.color import ColorSystem

        pool = [(sut(GS.build_style, sp), sp) for sp in spec["pool"]]
        used = set()
        reused_sum = False
        for step, op in enumerate(spec["ops"]):
            k = op[0]
            if k == "combine":
                members = [pool[j % len(pool)] for j in op[1]]
                obj = sut(Style.combine, [m[0] for m in members])
                model = GS.merge(*[m[1] for m in members])
            else:
                a, am = pool[op[1] % len(pool)]
                if k == "add":
                    b, bm = pool[op[2] % len(pool)]
                    obj = sut(lambda: a + b)
                    model = GS.merge(am, bm)
                    if (op[1] % len(pool)) in used and (op[2] % len(pool)) in used:
                        reused_sum = True
                    used.add(op[1] % len(pool))
                    used.add(op[2] % len(pool))
                elif k == "link":
                    obj = sut(a.update_link, op[2])
                    model = dict(am, link=op[2])
                    used.add(op[1] % len(pool))
                elif k == "copy":
                    obj = sut(a.copy)
                    model = dict(am)
                    used.add(op[1] % len(pool))
                elif k == "nocolor":
                    obj = sut(lambda: a.without_color)
                    model = dict(am, color=None, bgcolor=None)
                    used.add(op[1] % len(pool))
                elif k == "reparse":
                    obj = sut(Style.parse, sut(str, a))
                    model = dict(am)
                else:
                    sut(a.render, "x", color_system=ColorSystem.TRUECOLOR)
                    continue
            desc = "step %d %r of %r on pool %r" % (step, op, spec["ops"], spec["pool"])
            if GS.style_view(obj) != GS.spec_view(model):
                which = [n for n, x, y in zip(("attributes", "color", "bgcolor", "link"), GS.style_view(obj), GS.spec_view(model)) if x != y]
                ctx.violation("right-hand-wins", "C06/history/" + "+".join(which), "%s: the result is %r, the reference merge gives %r" % (desc, GS.style_view(obj), GS.spec_view(model)))
                return
            pool.append((obj, model))
            for idx, (o, m) in enumerate(pool):
                if GS.style_view(o) != GS.spec_view(m):
                    ctx.violation("right-hand-wins", "C06/history/operand-changed", "%s: pool member %d changed to %r (it was %r)" % (desc, idx, GS.style_view(o), GS.spec_view(m)))
                    return
                if o == obj and hash(o) != hash(obj):
                    ctx.violation("hash", "C06/history/hash", "%s: pool member %d equals the result but hashes differently" % (desc, idx))
                    return
        if reused_sum:
            ctx.nontrivial = True
        ctx.cls("reused-operands" if reused_sum else "fresh-operands")


PARTS = [Algebra(), RoundTrip(), Hashing(), ConcurrentStrings(), ObjectHistories()]
