"""C20 - named styles resolve through a well-behaved theme stack."""
import io
from hypothesis import strategies as st

from ..core import Part, sut, SutError
from ..gen import styles as GS

PROP_ID = "C20"
LEVEL = "exploration"
RULE = "Hypothesis: nested push/pop/use_theme histories (as data) with lookups after every step against a reference stack; config text round trip"
ASSUMPTIONS = [
    "style names follow the documented grammar (lower case letters, digits after the first letter, '.', '-', '_')",
    "a Theme built with inherit=True itself defines Rich's default styles (documented: 'inherit default styles')",
    "rich.default_styles.DEFAULT_STYLES is the reference for the values of the built-in names",
    "looked-up styles are compared field-wise (attributes, colours by kind/number/triplet, link) and with ==",
]

NAMES = ["info", "warning", "danger", "a.b", "x-y", "z_1", "bold", "repr.number", "rule.line", "red"]
DEFINITIONS = ["bold red", "not bold", "on blue", "#00ff00", "link https://q.example", "none", "italic u"]
BAD = ["no such style", "foo bar baz", "on", "not", "link", "bold nope"]
# theme names are lower case (documented); a differently cased spelling is not a theme name: it is parsed as a definition (style words are case-insensitive) or missing
CASED = ["RED", "BOLD", "Info", "WARNING", "Rule.Line", "Bold Red", "DANGER"]


class Boom(Exception):
    pass


def theme_spec():
    return st.builds(lambda styles, inh, as_str: {"styles": styles, "inherit": inh, "as_str": as_str},
                     st.dictionaries(st.sampled_from(NAMES), st.one_of(st.sampled_from(GS.PALETTE), GS.style_spec()), max_size=5), st.booleans(), st.booleans())


def op_strategy(depth=0):
    t = st.integers(0, 3)
    # ["edit", theme, name, palette index | None]: the theme's public styles dict is edited in place (an entry set or removed); pushes made later see the edit,
    # entries already on the stack were made from the dict as it was
    edit = st.tuples(st.just("edit"), t, st.sampled_from(NAMES), st.one_of(st.none(), st.integers(0, len(GS.PALETTE) - 1))).map(list)
    leaf = st.one_of(st.tuples(st.just("push"), t, st.booleans()).map(list), st.tuples(st.just("push"), t, st.booleans()).map(list), st.just(["pop"]), st.just(["pop"]), edit)
    if depth >= 2:
        return leaf
    # the 6th element: enter the same context object a second time inside itself (a stored `ctx = console.use_theme(t)` used by a recursive helper)
    use = st.builds(lambda ti, inh, body, raises, twice: ["use", ti, inh, body, raises, twice], t, st.booleans(), st.lists(st.deferred(lambda: op_strategy(depth + 1)), max_size=3), st.booleans(),
                    st.sampled_from([False, False, False, True]))
    return st.one_of(leaf, leaf, use)


def build_theme(ts):
    from rich.theme import Theme

    styles = {}
    for name, sp in ts["styles"].items():
        sty = GS.build_style(sp)
        styles[name] = str(sty) if ts["as_str"] else sty
    return sut(Theme, styles, inherit=ts["inherit"])


class Stack(Part):
    name = "stack"
    rule = ("4 generated themes over 10 names (some shadowing Rich defaults) x base theme (default or custom) x <=15 nested ops push(inherit)/pop/"
            "use_theme(inherit){...}[raises]; after every step every name, 7 definitions, 6 unparseable names and 7 differently-cased spellings of theme names are looked up and compared with a "
            "reference stack of (definitions, inherit); a generated subset of the steps is not followed by lookups; a use_theme context object may be entered again inside itself; non-trivial = >=2 pushes live at once with one non-inheriting, and a lookup fell through >=2 levels")
    budget = {"quick": (8, 1000), "thorough": (16, 8000)}

    def strategy(self, tier):
        return st.builds(lambda themes, base, ops, quiet: {"themes": themes, "base": base, "ops": ops, "quiet": quiet}, st.lists(theme_spec(), min_size=4, max_size=4), st.one_of(st.none(), st.integers(0, 3)),
                         st.lists(op_strategy(), min_size=1, max_size=8), st.one_of(st.just([]), st.lists(st.integers(0, 7), max_size=6, unique=True)))

    def check(self, spec, ctx):
        from rich.console import Console
        from rich.default_styles import DEFAULT_STYLES
        from rich.errors import MissingStyle
        from rich.theme import ThemeStackError
        from rich.style import Style

        themes = [build_theme(t) for t in spec["themes"]]

        def defs_of(ts):
            d = {}
            if ts["inherit"]:
                for k, v in DEFAULT_STYLES.items():
                    d[k] = GS.style_view(v)
            for k, sp in ts["styles"].items():
                d[k] = GS.spec_view(sp)
            return d

        tdefs = [defs_of(t) for t in spec["themes"]]
        default_defs = {k: GS.style_view(v) for k, v in DEFAULT_STYLES.items()}
        if spec["base"] is None:
            con = sut(Console, file=io.StringIO(), _environ={})
            stack = [(default_defs, 0)]
        else:
            con = sut(Console, file=io.StringIO(), theme=themes[spec["base"]], _environ={})
            stack = [(tdefs[spec["base"]], 0)]   # the console uses its initial theme's dict as it is (no copy): edits of that theme show at once
        stats = {"fell2": False, "deep": False}

        def expected(name):
            # an inheriting push merges the entry below it into the new entry at push time, so the top entry alone answers a lookup
            defs, depth = stack[-1]
            if name in defs:
                if depth >= 2:
                    stats["fell2"] = True
                return ("style", defs[name])
            try:
                return ("style", GS.style_view(Style.parse(name)))
            except Exception:  # noqa
                return ("missing",)

        def pushed(ti, inh):
            """The entry a push creates: (definitions, number of inheriting pushes it was merged through)."""
            below, d = stack[-1]
            if inh:
                return ({**below, **tdefs[ti]}, d + 1)
            return (dict(tdefs[ti]), 0)

        quiet = set(spec.get("quiet") or [])
        step = [0]
        edits = [0]

        def look(where):
            # some steps are not followed by any lookup (a lookup may itself leave something behind that only a later, different stack reveals)
            step[0] += 1
            if where != "end" and (step[0] % 8) in quiet:
                stats["skipped"] = stats.get("skipped", 0) + 1
                return True
            for name in NAMES + DEFINITIONS + BAD + CASED:
                want = expected(name)
                try:
                    got = ("style", GS.style_view(con.get_style(name)))
                except MissingStyle:
                    got = ("missing",)
                except Exception as e:  # noqa
                    raise SutError(e)
                if got == want and want == ("missing",) and name in BAD[:2]:
                    # the keyword-only default: a name that does not resolve falls back to the default, which is itself resolved through the theme stack
                    for dflt in ("warning", "bold", "a.b"):
                        want_d = expected(dflt)
                        try:
                            got_d = ("style", GS.style_view(con.get_style(name, default=dflt)))
                        except MissingStyle:
                            got_d = ("missing",)
                        except Exception as e:  # noqa
                            raise SutError(e)
                        if got_d != want_d:
                            ctx.violation("lookup", "C20/lookup/default-%s" % where.split(":")[0], "after %s: get_style(%r, default=%r) -> %r, expected what get_style(%r) gives: %r" % (where, name, dflt, got_d, dflt, want_d))
                            return False
                if got != want:
                    kind = "name" if name in NAMES else ("definition" if name in DEFINITIONS else ("cased" if name in CASED else "unparseable"))
                    ctx.violation("lookup", "C20/lookup/%s-%s" % (kind, where.split(":")[0]), "after %s: get_style(%r) -> %r, expected %r (stack depth %d)" % (where, name, got, want, len(stack)))
                    return False
            return True

        def snapshot():
            return [expected(n) for n in NAMES]

        def run(ops, where, floor=1):
            """floor: stack depth this block owns; pops that would go below it are skipped inside use_theme bodies."""
            for op in ops:
                if ctx.violations:
                    return
                if op[0] == "pop" and floor > 1 and len(stack) <= floor:
                    continue
                if op[0] == "edit":
                    _, ti, name, pi = op
                    # the model's dict is edited in place too: a pushed theme is copied (merged) into the stack, but the console's initial theme is used as it is,
                    # so an edit of that theme shows at once while stack entries made by push_theme keep the definitions they were made from
                    if pi is None:
                        themes[ti].styles.pop(name, None)
                        tdefs[ti].pop(name, None)
                    else:
                        themes[ti].styles[name] = GS.build_style(GS.PALETTE[pi])
                        tdefs[ti][name] = GS.spec_view(GS.PALETTE[pi])
                    edits[0] += 1
                    ctx.cls("theme-edited-in-place")
                    if not look("edit"):
                        return
                    continue
                if op[0] == "push":
                    sut(con.push_theme, themes[op[1]], inherit=op[2])
                    stack.append(pushed(op[1], op[2]))
                    if not look("push:inherit=%s" % op[2]):
                        return
                elif op[0] == "pop":
                    if len(stack) == 1:
                        try:
                            con.pop_theme()
                        except ThemeStackError:
                            pass
                        except Exception as e:  # noqa
                            raise SutError(e)
                        else:
                            ctx.violation("pop-base", "C20/popbase/allowed", "pop_theme() on the base theme did not raise ThemeStackError")
                            return
                        if not look("pop-base"):
                            return
                    else:
                        sut(con.pop_theme)
                        stack.pop()
                        if not look("pop"):
                            return
                else:
                    _, ti, inh, body, raises = op[:5]
                    twice = len(op) > 5 and op[5]
                    before = snapshot()
                    edits_before = edits[0]
                    depth_before = len(stack)
                    cm = con.use_theme(themes[ti], inherit=inh)
                    try:
                        with cm:
                            stack.append(pushed(ti, inh))
                            if not look("use_theme:inherit=%s" % inh):
                                return
                            if twice:
                                with cm:
                                    stack.append(pushed(ti, inh))
                                    if not look("use_theme-reentered"):
                                        return
                                stack.pop()
                                if not look("use_theme-reentered-exit"):
                                    return
                            run(body, where + ">use", floor=depth_before + 1)
                            if ctx.violations:
                                return
                            # balance the body so that the context manager's pop is matched with its own push
                            while len(stack) > depth_before + 1:
                                sut(con.pop_theme)
                                stack.pop()
                            if raises:
                                # every third raising block is left by a ThemeStackError that comes from elsewhere (another console refusing to pop its base theme)
                                if (step[0] % 3) == 0:
                                    raise ThemeStackError("Unable to pop base theme")
                                raise Boom()
                    except (Boom, ThemeStackError):
                        pass
                    except SutError:
                        raise
                    stack.pop()
                    if not look("use_theme-exit%s" % ("-by-exception" if raises else "")):
                        return
                    if snapshot() != before and edits[0] == edits_before:
                        raise AssertionError("model not restored")
                if len(stack) >= 3 and any(d == 0 for _, d in stack[1:]):
                    stats["deep"] = True

        if not look("start"):
            return
        run(spec["ops"], "top")
        if not ctx.violations and not look("end"):
            return
        if stats["deep"] and stats["fell2"]:
            ctx.nontrivial = True
        if stats["fell2"]:
            ctx.cls("fell-through-2-levels")


class Config(Part):
    name = "config"
    rule = ("themes with <=10 styles from the C06 style space (links may contain % # ; = :) x inherit: Theme.from_file(StringIO(theme.config)) has an equal "
            "name -> style map; the text read without inheriting is complete; a theme read from a (partial) file round-trips again; the text follows later edits of "
            "theme.styles; non-trivial = >=3 styles including a link or hex colour")
    budget = {"quick": (8, 600), "thorough": (16, 6000)}

    def strategy(self, tier):
        link = st.sampled_from(["https://a.b/%20x", "https://a.b/#frag", "https://a.b/?q=1;r=2", "https://a.b/x:y", "http://plain.example", "https://a.b/100%"])
        sp = st.builds(lambda s, l: dict(s, link=l), GS.style_spec(links=False), st.one_of(st.none(), st.none(), link))
        names = st.sampled_from(NAMES + ["n1", "long.name-with_all", "q"])
        return st.builds(lambda styles, inh, partial, edit: {"styles": styles, "inherit": inh, "partial": partial, "edit": edit}, st.dictionaries(names, sp, max_size=10), st.booleans(),
                         st.one_of(st.none(), st.integers(0, 9)), st.one_of(st.none(), st.integers(0, 6)))

    def check(self, spec, ctx):
        from rich.theme import Theme

        theme = sut(Theme, {k: GS.build_style(v) for k, v in spec["styles"].items()}, inherit=spec["inherit"])
        text = sut(lambda: theme.config)
        try:
            back = Theme.from_file(io.StringIO(text), inherit=spec["inherit"])
        except Exception as e:  # noqa
            ctx.violation("config", "C20/config/%s" % type(e).__name__, "from_file(config) raised %r for config %r" % (e, text[-300:] if spec["inherit"] else text))
            return
        a = {k: GS.style_view(v) for k, v in theme.styles.items()}
        b = {k: GS.style_view(v) for k, v in back.styles.items()}
        if a != b:
            diff = [k for k in set(a) | set(b) if a.get(k) != b.get(k)]
            ctx.violation("config", "C20/config/changed", "styles differ after the round trip for %r: %r vs %r" % (diff[:3], [a.get(k) for k in diff[:3]], [b.get(k) for k in diff[:3]]))
            return
        for k in theme.styles:
            if not (theme.styles[k] == back.styles[k]):
                ctx.violation("config", "C20/config/unequal", "style %r: %r != %r" % (k, theme.styles[k], back.styles[k]))
                return
        # the config text is complete: read without inheriting it still gives every style; and a theme that was itself read from a file round-trips again
        def same(x, y, what):
            xa = {k: GS.style_view(v) for k, v in x.styles.items()}
            ya = {k: GS.style_view(v) for k, v in y.styles.items()}
            if xa != ya:
                diff = sorted(k for k in set(xa) | set(ya) if xa.get(k) != ya.get(k))
                ctx.violation("config", "C20/config/%s" % what, "%s: %d styles differ, e.g. %r: %r vs %r" % (what, len(diff), diff[:3], [xa.get(k) for k in diff[:3]], [ya.get(k) for k in diff[:3]]))
                return False
            return True

        try:
            bare = Theme.from_file(io.StringIO(text), inherit=False)
            if not same(theme, bare, "incomplete-text"):
                return
            import os
            import tempfile

            fd, path = tempfile.mkstemp(prefix="vp_c20_", suffix=".ini")
            try:
                with os.fdopen(fd, "w", encoding="utf-8") as fh:
                    fh.write(text)
                from_path = Theme.read(path, inherit=spec["inherit"])
                from_path_bare = Theme.read(path, inherit=False)
            finally:
                os.unlink(path)
            if not same(theme, from_path, "read-path") or not same(theme, from_path_bare, "read-path-without-inheriting"):
                return
            text2 = back.config
            again = Theme.from_file(io.StringIO(text2), inherit=False)
            if not same(back, again, "second-generation"):
                return
            if spec.get("partial") is not None and spec["styles"]:
                # a theme read from a partial file on top of the defaults
                keep = sorted(spec["styles"])[: 1 + spec["partial"] % len(spec["styles"])]
                ptext = "[styles]\n" + "".join(l + "\n" for l in text.split("\n") if l.split(" = ")[0] in keep)
                loaded = Theme.from_file(io.StringIO(ptext), inherit=True)
                reread = Theme.from_file(io.StringIO(loaded.config), inherit=False)
                if not same(loaded, reread, "partial-file"):
                    return
            if spec.get("edit") is not None:
                # the config text follows the theme's current styles
                from rich.style import Style
                theme.styles["edited.name"] = Style.parse(DEFINITIONS[spec["edit"] % len(DEFINITIONS)])
                reread = Theme.from_file(io.StringIO(theme.config), inherit=False)
                if not same(theme, reread, "stale-after-edit"):
                    return
        except SutError:
            raise
        except Exception as e:  # noqa
            ctx.violation("config", "C20/config/%s" % type(e).__name__, "config re-read raised %r" % (e,))
            return
        if len(spec["styles"]) >= 3 and any(v["link"] or (v["color"] or "").startswith("#") for v in spec["styles"].values()):
            ctx.nontrivial = True


PARTS = [Stack(), Config()]
