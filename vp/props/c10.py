"""C10 - Live and progress displays leave a correct screen after any history."""
import io
import sys
import datetime
from hypothesis import strategies as st

from ..core import Part, sut, SutError
from ..oracles.vt import VT, VTError

PROP_ID = "C10"
LEVEL = "fault_enumeration"
RULE = "Hypothesis histories over {Live, Progress, Status} replayed on a VT100-subset screen model against an independently computed expected screen; faults injected at every render index / block position"
ASSUMPTIONS = [
    "auto_refresh is off (Status gets a refresh period long enough that its thread never fires); clocks are constants supplied by the harness",
    "prints end in a new line; text is single-width ASCII (plus the spinner glyph), so one character is one cell",
    "frames taller than the screen are only generated with vertical_overflow crop/ellipsis (visible is documented to overflow); Progress tables stay <= screen height - DESIGN 7.11",
    "expected printed lines come from printing the same objects on a plain console of the same width; expected frames from rendering the displayed renderable alone",
    "rows are compared right-stripped and trailing blank rows are ignored (Progress pads its frame to its historical maximum height by design)",
    "after a render that raised inside print/log the text of that call may or may not have been written (both are accepted); everything printed successfully must stay",
    "log() uses log_path=False and a constant datetime",
    "a print()/log() whose own renderable raises (the displayed renderable being fine) shows nothing of that call; the frame on the screen afterwards is the one that was there or the one a print draws now (both accepted), and every later draw is fully specified again",
    "Progress rows never wrap: a task description is cut to the terminal width - 5 before it is set",
]

WORDS = ["alpha", "beta", "gamma", "delta", "line", "x", "task done", "0123456789", "the quick brown fox jumps over the lazy dog", "ok"]
FIXED_DT = datetime.datetime(2021, 3, 4, 5, 6, 7)


class RecFile(io.StringIO):
    def __init__(self):
        super().__init__()
        self.writes = []

    def write(self, t):
        self.writes.append(t)
        return super().write(t)


class Boom(BaseException):
    """Injected fault. BoomE is the ordinary kind (an Exception); a plain Boom is not an Exception (like KeyboardInterrupt raised while a frame is drawn)."""


class BoomE(Boom, Exception):
    pass


class UserRaiser:
    """An ordinary renderable handed to print()/log() by the program (not the displayed one): yields some lines, then raises."""

    def __init__(self, lines, exc):
        self.lines = lines
        self.exc = exc

    def __rich_console__(self, console, options):
        from rich.text import Text

        for l in self.lines:
            yield Text(l)
        raise self.exc("printed renderable")


def raising_print():
    # ["print_raises", print|log, lines yielded before the raise, BaseException?, caught by the program?, objects printed before it in the same call]
    return st.tuples(st.just("print_raises"), st.sampled_from(["print", "print", "log"]), st.lists(st.sampled_from(WORDS), max_size=2), st.sampled_from([False, False, True]),
                     st.sampled_from([True, True, True, False]), st.lists(st.sampled_from(WORDS), max_size=1))


class Fault:
    """Shared render counter: raises at the fail_at-th render (and afterwards if persistent)."""

    def __init__(self, fail_at, persistent, base=False):
        self.fail_at = fail_at
        self.persistent = persistent
        self.exc = Boom if base else BoomE
        self.count = 0
        self.fired = 0

    def tick(self):
        k = self.count
        self.count += 1
        if self.fail_at is not None and (k == self.fail_at or (self.persistent and k > self.fail_at)):
            self.fired += 1
            raise self.exc("render %d" % k)


class Frame:
    """The displayed renderable: a group of text lines behind a fault counter."""

    def __init__(self, lines, fault):
        self.lines = lines
        self.fault = fault

    def __rich_console__(self, console, options):
        from rich.text import Text

        self.fault.tick()
        for l in self.lines:
            yield Text(l, overflow="ignore", no_wrap=True)   # the text does not shorten itself: cropping to the screen width is the display's job


def make_consoles(W, H):
    from rich.console import Console

    f = RecFile()
    kw = dict(width=W, height=H, force_terminal=True, color_system=None, legacy_windows=False, log_path=False, get_datetime=lambda: FIXED_DT, get_time=lambda: 100.0, _environ={})
    con = Console(file=f, **kw)
    twin = Console(file=io.StringIO(), **kw)
    return con, f, twin


def text_lines():
    # an empty list stands for print() without arguments
    return st.one_of(st.lists(st.sampled_from(WORDS), min_size=1, max_size=3), st.lists(st.sampled_from(WORDS), min_size=1, max_size=3), st.lists(st.sampled_from(WORDS), min_size=1, max_size=3), st.just([]))


def frame_lines(maxh):
    # some frame lines are longer than any screen (they are cropped to the width when the frame is drawn)
    marker = st.one_of(st.integers(0, 99).map(lambda i: "F%02d" % i), st.integers(0, 99).map(lambda i: "F%02d" % i), st.integers(0, 99).map(lambda i: "F%02d" % i + "=" * 70))
    return st.one_of(st.lists(marker, min_size=0, max_size=3), st.lists(marker, min_size=0, max_size=maxh))


def live_ops(H, tall, extra=()):
    fl = frame_lines(H + 3 if tall else H)
    uncropped = st.tuples(st.just("print"), st.lists(st.sampled_from(WORDS), min_size=1, max_size=1), st.sampled_from([{"soft_wrap": True}, {"crop": False}, {"soft_wrap": True, "crop": False},
                                                                                                                                    # width= beyond the terminal (it is limited to the terminal's width), with and without cropping
                                                                                                                                    {"crop": False, "width_plus": 30}, {"soft_wrap": True, "width_plus": 7}, {"width_plus": 30}]))
    return st.one_of(
        st.tuples(st.just("print"), text_lines()), st.tuples(st.just("print"), text_lines()), st.tuples(st.just("log"), st.sampled_from(WORDS)), uncropped,
        st.tuples(st.just("update"), fl, st.booleans()), st.tuples(st.just("update"), fl, st.booleans()), st.tuples(st.just("update"), fl, st.booleans(), st.just(True)), st.tuples(st.just("refresh")),
        st.tuples(st.just("stdout"), st.sampled_from(["out one\n", "a\nb\n", "partial", "tail\n"])), st.tuples(st.just("stop")), st.tuples(st.just("start")), *extra
    ).map(list)


def progress_ops(extra=()):
    ti = st.integers(0, 5)
    return st.one_of(
        st.tuples(st.just("print"), text_lines()), st.tuples(st.just("log"), st.sampled_from(WORDS)),
        st.tuples(st.just("add"), st.sampled_from(["job", "copy", "build", "t"]), st.booleans()), st.tuples(st.just("add"), st.sampled_from(["job", "copy"]), st.just(True)),
        st.tuples(st.just("advance"), ti, st.integers(1, 3)), st.tuples(st.just("visible"), ti, st.booleans(), st.booleans()), st.tuples(st.just("remove"), ti),
        st.tuples(st.just("refresh")), st.tuples(st.just("stop")), st.tuples(st.just("start")), *extra
    ).map(list)


def status_ops(extra=()):
    return st.one_of(st.tuples(st.just("print"), text_lines()), st.tuples(st.just("log"), st.sampled_from(WORDS)), st.tuples(st.just("status"), st.sampled_from(["working", "busy", "x"])),
                     st.tuples(st.just("refresh")), st.tuples(st.just("stop")), st.tuples(st.just("start")), *extra).map(list)


@st.composite
def history(draw, with_faults, user_faults=False, shapes=False):
    # user_faults: the op alphabet also holds prints / logs of a renderable of the program's own that raises (several copies: about one op in four)
    extra = (raising_print(),) * (4 if user_faults else 0)
    # shapes: Progress only, and a task's description can be replaced by a longer or shorter one (frames that get wider / narrower as well as taller / shorter)
    describe = (st.tuples(st.just("describe"), st.integers(0, 5), st.sampled_from(["t", "job", "a much longer description", "copy", "unpacking"]), st.booleans()),) * (2 if shapes else 0)
    kind = draw(st.sampled_from(["live", "live", "progress", "status"])) if not shapes else "progress"
    W = draw(st.integers(10, 60))
    H = draw(st.integers(4, 12))
    overflow = draw(st.sampled_from(["crop", "ellipsis", "visible"]))
    transient = draw(st.booleans())
    n = draw(st.integers(1, 40 if not (with_faults or user_faults) else 14))
    shrink = draw(st.one_of(st.none(), st.none(), st.integers(4, 8))) if (kind == "live" and not with_faults) else None
    if shrink is not None and shrink >= H:
        shrink = None
    if kind == "live":
        ops = draw(st.lists(live_ops(shrink or H, overflow != "visible", extra), min_size=1, max_size=n))
    elif kind == "progress":
        ops = draw(st.lists(progress_ops(extra + describe), min_size=1, max_size=n))
    else:
        ops = draw(st.lists(status_ops(extra), min_size=1, max_size=n))
    spec = {"kind": kind, "W": W, "H": H, "overflow": overflow, "transient": transient, "ops": ops, "initial": draw(frame_lines(min(3, (shrink or H) - 1))), "redirect": draw(st.booleans()),
            "redirect_err": draw(st.booleans()), "disable": kind == "progress" and draw(st.sampled_from([False, False, False, True])),
            "shrink": shrink}
    if with_faults:
        spec["fault"] = draw(st.one_of(
            st.builds(lambda k, p, c, b: {"mode": "render", "at": k, "persistent": p, "catch": c, "base": b}, st.integers(0, 12), st.booleans(), st.booleans(), st.sampled_from([False, False, True])),
            st.builds(lambda j, b: {"mode": "body", "after": j, "base": b}, st.integers(0, 14), st.sampled_from([False, False, True])),
        ))
    return spec


class Runner:
    """Runs one history against the real display and the expected-screen model."""

    def __init__(self, spec, ctx):
        self.spec = spec
        self.ctx = ctx
        self.W, self.H = spec["W"], spec["H"]
        self.con, self.file, self.twin = make_consoles(self.W, self.H)
        # "shrink": the terminal is made shorter right after the display was started (before anything is on the screen): the screen model has the new height from the beginning
        self.shrink = spec.get("shrink") if (spec.get("shrink") and spec["kind"] == "live" and spec["shrink"] < spec["H"]) else None
        self.vt = VT(self.W, self.shrink or self.H)
        self.fed = 0
        f = spec.get("fault") or {}
        self.fault = Fault(f.get("at") if f.get("mode") == "render" else None, f.get("persistent", False), f.get("base", False))
        self.kind = spec["kind"]
        self.transient = spec["transient"] if self.kind != "status" else True
        self.started = False
        self.fixed = [[]]          # candidate lists of permanent rows (alternatives after a failed print)
        self.drawn = None          # frame rows on screen
        self.rend = list(spec["initial"])
        self.hmax = 0              # Progress: historical maximum frame height (of the current live session)
        self.snapshot = []         # Progress: rows of the table as of the last refresh
        self.tasks = []            # Progress model: [id, desc, completed, visible]
        self.task_ids = []
        self.twin_pos = 0
        self.between = False
        self.nontrivial = False
        self.last_frame_h = None
        self.display = None
        self.after_fault = False
        self.pending = ""   # text written to the redirected stdout that has not been ended by a new line yet
        self.dead_screen = False
        self.tall_transient_stop = False
        self.just_drew = False
        self.opi = 0
        self.drawn_alt = None
        self.escaped = False   # an exception of the program's own print left the live block: the history ends with the stop() of the with statement
        self.orig_stdout, self.orig_stderr = sys.stdout, sys.stderr

    # ---------------------------------------------------------------- construction
    def build(self):
        from rich.live import Live
        from rich.progress import Progress, ProgressColumn
        from rich.status import Status
        from rich.text import Text

        fault = self.fault
        if self.kind == "live":
            self.frame_obj = Frame(self.rend, fault)
            self.display = Live(self.frame_obj, console=self.con, auto_refresh=False, transient=self.transient, vertical_overflow=self.spec["overflow"],
                                redirect_stdout=self.spec["redirect"], redirect_stderr=self.spec.get("redirect_err", self.spec["redirect"]))
        elif self.kind == "progress":
            class Col(ProgressColumn):
                def render(self, task):
                    if task.id == min(t.id for t in task_list()):
                        fault.tick()
                    return Text("%s %d" % (task.description, task.completed))

            self.display = Progress(Col(), console=self.con, auto_refresh=False, transient=self.transient, get_time=lambda: 100.0,
                                    redirect_stdout=self.spec["redirect"], redirect_stderr=self.spec.get("redirect_err", self.spec["redirect"]), disable=self.spec.get("disable", False))
            progress = self.display

            def task_list():
                return [t for t in progress.tasks if t.visible]

            # tasks that exist before the display is started (set up with the fault disarmed and not counted)
            armed, fault.fail_at = fault.fail_at, None
            for i, _ in enumerate(self.spec["initial"][:min(3, self.H - 2)]):
                tid = progress.add_task("pre%d" % i, total=10)
                self.tasks.append([tid, "pre%d" % i, 0, True])
            fault.fail_at, fault.count = armed, 0
        else:
            self.display = Status("msg0", console=self.con, refresh_per_second=0.001)
            self.rend = ["msg0"]

    # ---------------------------------------------------------------- expected screen
    def frame_now(self, final=False, refreshed=True):
        """Rows the frame occupies when drawn now."""
        if self.kind == "progress" and self.spec.get("disable"):
            return []  # a disabled Progress shows nothing; printing goes on as usual
        if self.kind == "progress":
            # the frame is the table as of the last refresh (prints redraw that snapshot); the display pads it to its historical maximum height
            if refreshed:
                self.snapshot = ["%s %d" % (d, c) for _, d, c, v in self.tasks if v]
            rows = list(self.snapshot)
            self.hmax = max(self.hmax, len(rows))
            return rows + [""] * (self.hmax - len(rows))
        if self.kind == "status":
            return ["⠋ " + self.rend[0]]
        rows = [l[:self.W] for l in self.rend]
        if final and not self.transient:
            return rows
        if len(rows) > self.H:
            if self.spec["overflow"] == "crop":
                rows = rows[:self.H]
            elif self.spec["overflow"] == "ellipsis":
                rows = rows[:self.H - 1] + [" " * ((self.W - 3) // 2) + "..."]
        return rows

    def twin_new_rows(self):
        v = self.twin.file.getvalue()
        new = v[self.twin_pos:]
        self.twin_pos = len(v)
        rows = new.split("\n")
        if rows and rows[-1] == "":
            rows.pop()
        return [r.rstrip() for r in rows]

    def sync(self, op, region_top):
        """Feed new output to the VT and compare with the expectation."""
        chunks = self.file.writes[self.fed:]
        self.fed = len(self.file.writes)
        self.vt.reset_min()
        try:
            for c in chunks:
                self.vt.feed(c)
        except VTError as e:
            self.ctx.violation("stream", "C10/stream/unsupported", "after %r: %s" % (op, e))
            return False
        if self.dead_screen:
            return True
        if self.after_fault:
            # after a draw that raised, what is left of the frame is unspecified until the next successful draw
            if not self.just_drew and self.started:
                return True
            self.after_fault = False
        if self.vt.min_row < region_top:
            self.ctx.violation("cursor", "C10/cursor/above-live-region", "during %r the cursor reached row %d, the live region starts at row %d\nscreen %r" % (op, self.vt.min_row, region_top, self.vt.screen()))
            return False
        got = self.vt.screen()
        wants = []
        for fx in self.fixed:
            w = [r.rstrip() for r in fx + (self.drawn or [])]
            while w and w[-1] == "":
                w.pop()
            wants.append(w)
        if self.drawn_alt is not None and got not in wants:
            # a second frame is acceptable after this op (see apply_user_fault): if the screen shows it, it is the frame on the screen from now on
            alts = []
            for fx in self.fixed:
                w = [r.rstrip() for r in fx + self.drawn_alt]
                while w and w[-1] == "":
                    w.pop()
                alts.append(w)
            if got in alts:
                wants, self.drawn, self.last_frame_h = alts, self.drawn_alt, len(self.drawn_alt)
        if got not in wants:
            sig = "C10/screen/%s-%s%s" % (self.kind, op[0], "-transient" if self.transient and op[0] == "stop" else "")
            if self.tall_transient_stop:
                sig = "C10/screen/transient-frame-fills-screen"
            self.ctx.violation("screen", sig, "after %r the screen is\n%s\nexpected\n%s\n(history so far %r)" % (op, "\n".join(got), "\n".join(wants[0]), self.spec["ops"][:self.opi + 1]))
            return False
        # keep only the alternatives that match
        self.fixed = [fx for fx, w in zip(self.fixed, wants) if w == got]
        return True

    # ---------------------------------------------------------------- operations
    def region_top(self):
        return min(len(fx) for fx in self.fixed)

    def apply(self, op):
        """Returns False when a violation was reported."""
        self.just_drew = False
        name = op[0]
        d = self.display
        top = self.region_top()
        printed_text = None
        if name == "print_raises":
            return self.apply_user_fault(op, top)
        try:
            if name == "print" and not op[1]:
                printed_text = ""   # print() without arguments: one empty line
                d.console.print()
                self.twin.print()
            elif name == "print" and len(op) > 2 and op[2]:
                # a print that is neither wrapped nor cropped (soft_wrap / crop=False); the text itself is short
                printed_text = op[1][0][:8]
                kw = dict(op[2])
                if "width_plus" in kw:
                    kw["width"] = max(len(printed_text) + 1, d.console.width + kw.pop("width_plus"))
                    self.ctx.cls("print-with-width-beyond-terminal" if kw["width"] > d.console.width else "print-with-width")
                d.console.print(printed_text, **kw)
                self.twin.print(printed_text, **kw)
                self.ctx.cls("print-uncropped")
            elif name == "print":
                printed_text = "\n".join(op[1])
                d.console.print(printed_text)
                self.twin.print(printed_text)
            elif name == "log":
                printed_text = op[1]
                d.console.log(printed_text)
                self.twin.log(printed_text)
            elif name == "stdout":
                if not (self.started and self.spec["redirect"]):
                    return True
                if not op[1].endswith("\n"):
                    # a partial line: nothing is shown yet; it is completed by a later write, or shown as a line of its own when the display stops
                    sys.stdout.write(op[1])
                    self.pending += op[1]
                    self.ctx.cls("partial-line-pending")
                    return self.sync(op, top)
                printed_text = self.pending + op[1]
                self.pending = ""
                sys.stdout.write(op[1])
                self.twin.print(printed_text, end="", markup=False, highlight=False, emoji=False)
            elif name == "update":
                self.rend = list(op[1])
                if len(op) > 3 and op[3] and getattr(self, "frame_obj", None) is not None:
                    # the renderable that is already displayed was edited in place and is handed to update() again
                    self.frame_obj.lines = self.rend
                    self.ctx.cls("update-with-the-same-object")
                else:
                    self.frame_obj = Frame(self.rend, self.fault)
                d.update(self.frame_obj, refresh=op[2])
                if not op[2]:
                    return self.sync(op, top)
            elif name == "refresh":
                d.refresh() if self.kind != "status" else d._live.refresh()
            elif name == "status":
                self.rend = [op[1]]
                d.update(op[1])
            elif name == "add":
                if len(self.tasks) >= self.H - 1:
                    return True  # a progress table taller than the screen is documented to scroll away (DESIGN 7.11)
                d.add_task(op[1], total=10, visible=op[2])
                # task identity follows the public task list (a failed add_task does not advance the task index, so ids can be reused)
                self.tasks = [[t.id, t.description, int(t.completed), t.visible] for t in d.tasks]
            elif name in ("advance", "visible", "remove", "describe"):
                if not self.tasks:
                    return True
                t = self.tasks[op[1] % len(self.tasks)]
                if name == "describe":
                    desc = op[2][:self.W - 5].strip()   # the row stays on one line of the table (no wrapping inside the frame)
                    t[1] = desc
                    d.update(t[0], description=desc, refresh=op[3])
                    self.ctx.cls("task-description-changed")
                    if not op[3]:
                        return self.sync(op, top)
                elif name == "advance":
                    d.advance(t[0], op[2])
                    t[2] += op[2]
                    return self.sync(op, top)
                elif name == "visible":
                    t[3] = op[2]  # the flag is set before the optional refresh (which may raise in a fault run)
                    d.update(t[0], visible=op[2], refresh=op[3])
                    if not op[3]:
                        return self.sync(op, top)
                else:
                    d.remove_task(t[0])
                    self.tasks.remove(t)
                    return self.sync(op, top)
            elif name == "start":
                if self.started:
                    d.start()  # a redundant start() on a running display must change nothing
                    return self.sync(op, top)
                d.start()
                self.started = True
                if self.shrink and self.H != self.shrink:
                    self.H = self.shrink
                    self.con._height = self.shrink
                    self.twin._height = self.shrink
                    self.ctx.cls("terminal-made-shorter-after-start")
                if self.kind == "progress":
                    self.drawn = self.frame_now()
                return self.sync(op, top)
            elif name == "stop":
                if not self.started:
                    return True
                self.fixed_before_stop = None
                if self.pending:
                    # the partial line still pending in the redirected stream appears as a printed line (above the last frame)
                    self.twin.print(self.pending, markup=False, highlight=False, emoji=False)
                    rows = self.twin_new_rows()
                    self.fixed_before_stop = list(self.fixed)
                    self.fixed = [fx + rows for fx in self.fixed]
                    self.pending = ""
                    self.ctx.cls("partial-line-at-stop")
                d.stop()
                self.started = False
                final = self.frame_now(final=True)
                keep = final if not self.transient else []
                if any(r.strip() for r in final):
                    self.fixed = [fx + keep for fx in self.fixed]
                else:
                    # an empty frame: stop() still ends the display with a new line, which may leave one blank row
                    self.fixed = [fx + keep for fx in self.fixed] + [fx + keep + [""] for fx in self.fixed]
                self.drawn = None
                self.tall_transient_stop = self.transient and len(final) >= self.H
                self.hmax = 0
                if not self.sync(op, top):
                    return False
                return self.after_stop(op, final)
            else:
                raise AssertionError(op)
        except Boom:
            # the displayed renderable raised inside this call; the harness catches it and the history goes on
            if name in ("start", "stop"):
                # the display is down (stop() restores in a finally block); what is left of the frame is unspecified from here on,
                # but the rows printed before must stay and the cursor must not have gone above them
                self.started = False
                self.drawn = None
                if name == "stop" and getattr(self, "fixed_before_stop", None) is not None:
                    # the frame could not be drawn, so the pending partial line could not be printed above it either: it may or may not be on the screen
                    self.fixed = self.fixed_before_stop + self.fixed
                    self.fixed_before_stop = None
                self.ctx.cls("render-fault-in-stop")
                ok = self.sync_prefix(op, top)
                self.dead_screen = True
                return ok
            if name == "add":
                # add_task registers the task before its refresh can fail: follow the public task list
                self.tasks = [[t.id, t.description, int(t.completed), t.visible] for t in d.tasks]
            if printed_text is not None:
                # keep the plain console's state (log time column) in step with the console under test
                if name == "print":
                    self.twin.print(printed_text)
                elif name == "log":
                    self.twin.log(printed_text)
                else:
                    self.twin.print(op[1], end="", markup=False, highlight=False, emoji=False)
            new_rows = self.twin_new_rows() if printed_text is not None else []
            if printed_text is not None and new_rows:
                self.fixed = [fx for fx in self.fixed] + [fx + new_rows for fx in self.fixed]
            self.ctx.cls("render-fault-caught")
            return self.sync_after_fault(op)
        # successful call
        if printed_text is not None:
            rows = self.twin_new_rows()
            self.fixed = [fx + rows for fx in self.fixed]
            if self.started and self.last_frame_h is not None:
                self.between = True
        if self.started and name in ("print", "log", "stdout", "refresh", "update", "status", "add", "visible", "describe"):
            if name == "add" and not self.started:
                pass
            self.drawn = self.frame_now(refreshed=name not in ("print", "log", "stdout"))
            self.just_drew = True
            h = len(self.drawn)
            if self.between and self.last_frame_h is not None and h != self.last_frame_h:
                self.nontrivial = True
            if name not in ("print", "log", "stdout"):
                self.between = False
            self.last_frame_h = h
        return self.sync(op, top)

    def apply_user_fault(self, op, top):
        """print()/log() of a renderable of the program's own that raises part-way (the displayed renderable is fine). The exception must reach the program,
        nothing of the failed call is shown, and the display goes on: the screen is still printed rows + a complete frame - either the frame that was on the
        screen (nothing was written) or the frame as a print draws it now. Later ops are compared as usual, so whatever the failed call left behind in the
        display's memory (height of the frame on screen, ...) shows at the next draw."""
        how, lines, base, catch, before = op[1], op[2], op[3], op[4], op[5]
        exc = Boom if base else BoomE
        d = self.display
        raised = None
        for con in (d.console, self.twin):
            # the same call on the plain console keeps its state (log time column) in step; it writes nothing either
            objs = list(before) + [UserRaiser(lines, exc)]
            try:
                (con.log if how == "log" else con.print)(*objs)
            except Boom as e:
                if con is d.console:
                    raised = e
        self.twin_new_rows()
        if raised is None:
            self.ctx.violation("propagate", "C10/fault/swallowed", "the exception raised by a renderable handed to console.%s() did not propagate (history %r)" % (how, self.spec["ops"][:self.opi + 1]))
            return False
        self.ctx.cls("printed-renderable-raised", "printed-renderable-raised-%s" % ("caught" if catch else "leaves-the-block"))
        if not catch:
            self.escaped = True
        if self.started and self.drawn is not None:
            # the frame a draw would produce now (an update() without refresh, or an edit in place, may be pending)
            alt = self.frame_now(refreshed=False)
            if len(alt) != len(self.drawn):
                self.nontrivial = True
                self.ctx.cls("printed-renderable-raised-with-a-pending-frame-of-another-height")
            if alt != self.drawn:
                self.drawn_alt = alt
        try:
            return self.sync(op, top)
        finally:
            self.drawn_alt = None

    def sync_prefix(self, op, region_top):
        """After a draw that raised inside start()/stop(): only the permanent rows and the cursor bound are checked."""
        chunks = self.file.writes[self.fed:]
        self.fed = len(self.file.writes)
        self.vt.reset_min()
        try:
            for c in chunks:
                self.vt.feed(c)
        except VTError as e:
            self.ctx.violation("stream", "C10/stream/unsupported", "after %r: %s" % (op, e))
            return False
        if self.after_fault or self.dead_screen:
            return True
        if self.vt.min_row < region_top:
            self.ctx.violation("cursor", "C10/cursor/above-live-region", "during %r (which raised) the cursor reached row %d, the live region starts at row %d\nscreen %r" % (op, self.vt.min_row, region_top, self.vt.screen()))
            return False
        got = self.vt.screen()
        for fx in self.fixed:
            w = [r.rstrip() for r in fx]
            while w and w[-1] == "":
                w.pop()
            if got[:len(w)] == w:
                return True
        self.ctx.violation("screen", "C10/screen/%s-%s-raised" % (self.kind, op[0]), "after %r raised, printed rows are gone: screen\n%s\nprinted rows\n%s" % (op, "\n".join(got), "\n".join(self.fixed[0])))
        return False

    def sync_after_fault(self, op):
        chunks = self.file.writes[self.fed:]
        self.fed = len(self.file.writes)
        try:
            for c in chunks:
                self.vt.feed(c)
        except VTError as e:
            self.ctx.violation("stream", "C10/stream/unsupported", "after %r: %s" % (op, e))
            return False
        # the frame on screen after a failed draw is unspecified until the next successful draw; permanent rows are checked then
        self.after_fault = True
        return True

    def after_stop(self, op, final):
        vt = self.vt
        if not vt.cursor_visible:
            self.ctx.violation("cursor", "C10/cursor/hidden-after-stop", "cursor still hidden after stop (history %r)" % (self.spec["ops"][:self.opi + 1],))
            return False
        return True

    def restored(self, where):
        problems = []
        if sys.stdout is not self.orig_stdout:
            problems.append("sys.stdout still redirected")
        if sys.stderr is not self.orig_stderr:
            problems.append("sys.stderr still redirected")
        if len(self.con._render_hooks) != 0:
            problems.append("%d render hook(s) still pushed" % len(self.con._render_hooks))
        started = self.display._live._started if self.kind == "status" else self.display._started
        if started:
            problems.append("display still reports started")
        out = self.file.getvalue()
        if out.rfind("\x1b[?25l") > out.rfind("\x1b[?25h"):
            problems.append("cursor left hidden")
        if problems:
            self.ctx.violation("restore", "C10/restore/%s-%s" % (self.kind, where), "after an exception %s: %s (history %r, fault %r)" % (where, "; ".join(problems), self.spec["ops"], self.spec.get("fault")))
            return False
        return True

    def cleanup(self):
        try:
            if self.display is not None:
                st_ = self.display._live._started if self.kind == "status" else self.display._started
                if st_:
                    self.fault.fail_at = None
                    self.display.stop()
        except Exception:  # noqa
            pass
        sys.stdout, sys.stderr = self.orig_stdout, self.orig_stderr


class Histories(Part):
    name = "histories"
    rule = ("{Live, Progress, Status} x transient x vertical_overflow x W 10..60 x H 4..12 x <= 40 ops over print (multi-line), log, update(frame, refresh?), "
            "refresh, stdout writes (redirected), add/advance/show/hide/remove task, status text, start, stop, with frames that grow, shrink, become empty or "
            "exceed the screen; after every op the bytes written are replayed on the VT model and compared with printed rows + frame as of the last draw; "
            "non-trivial = a print between two draws of frames of different height")
    budget = {"quick": (16, 300), "thorough": (16, 4000)}
    chunk = 150

    def strategy(self, tier):
        return history(False)

    def check(self, spec, ctx):
        r = Runner(spec, ctx)
        try:
            sut(r.build)
            ops = [["start"]] + list(spec["ops"]) + [["stop"]]
            for i, op in enumerate(ops):
                r.opi = max(0, i - 1)
                try:
                    ok = r.apply(list(op))
                except (Boom, SutError):
                    raise
                except Exception as e:  # noqa
                    raise SutError(e)
                if not ok:
                    return
            if not r.restored("at-the-end"):
                return
            if r.nontrivial:
                ctx.nontrivial = True
            ctx.cls(spec["kind"], "transient" if r.transient else "persistent")
        finally:
            r.cleanup()


class ProgressShapes(Histories):
    name = "progress-shapes"
    rule = ("Progress histories as in `histories` (<= 40 ops, same options / sizes, tasks present before start) whose op alphabet also holds update(task, description=..., refresh?) with "
            "descriptions of 1 to 25 characters (cut so that a row never wraps), so that successive frames differ in width as well as in height, in every combination "
            "(taller and narrower, shorter and wider, ...); compared exactly as in `histories`; non-trivial = a print between two draws of frames of different height")
    budget = {"quick": (16, 100), "thorough": (16, 2000)}
    chunk = 100

    def strategy(self, tier):
        return history(False, shapes=True)


class PrintFaults(Part):
    name = "print-faults"
    rule = ("histories as in `histories` (<= 14 ops, same displays / options / sizes) whose op alphabet also holds, about one op in four, console.print / console.log of a renderable "
            "of the program's own that yields 0-2 lines and then raises (Exception or bare BaseException; alone or after an ordinary object in the same call), while the displayed "
            "renderable is fine - possibly with an update(frame) without refresh or an edit in place pending; the exception is caught by the program, which goes on, "
            "or leaves the live block, which then ends with the stop() of the with statement. Required: the exception reaches the program; right after the failed call the screen is "
            "the printed rows + a complete frame (the one that was on the screen, or the one a print draws now), nothing of the failed call, cursor not above the live region; "
            "every later op and the final stop are compared exactly as in `histories` (printed rows + frame of the last draw, nothing if transient), and stdout/stderr, hook, "
            "started flag and cursor are restored at the end; non-trivial = a print raised while the frame a draw would produce had another height than the frame on the screen")
    budget = {"quick": (16, 200), "thorough": (16, 3000)}
    chunk = 100

    def strategy(self, tier):
        return history(False, user_faults=True)

    def check(self, spec, ctx):
        r = Runner(spec, ctx)
        try:
            sut(r.build)
            ops = [["start"]] + list(spec["ops"])
            for i, op in enumerate(ops):
                r.opi = max(0, i - 1)
                try:
                    ok = r.apply(list(op))
                except (Boom, SutError):
                    raise
                except Exception as e:  # noqa
                    raise SutError(e)
                if not ok:
                    return
                if r.escaped:
                    break   # the exception left the block: __exit__ of the display follows
            try:
                if not r.apply(["stop"]):
                    return
            except (Boom, SutError):
                raise
            except Exception as e:  # noqa
                raise SutError(e)
            if not r.restored("in-a-print" if r.escaped else "at-the-end"):
                return
            if r.nontrivial:
                ctx.nontrivial = True
            ctx.cls(spec["kind"], "transient" if r.transient else "persistent")
        finally:
            r.cleanup()


class Faults(Part):
    name = "faults"
    rule = ("histories (<= 14 ops) x a fault: the displayed renderable raises at render index k (one-shot or persistent; propagating out of the live block, or "
            "caught by the program which then continues), or the block body raises after j ops; the exception is an Exception or a bare BaseException (as KeyboardInterrupt is); required: the exception propagates, stdout/stderr, render hook, "
            "started flag and cursor are restored, and everything printed successfully stays on the screen; non-trivial = the fault fired between start and stop")
    budget = {"quick": (16, 400), "thorough": (16, 6000)}
    chunk = 250

    def strategy(self, tier):
        return history(True)

    def check(self, spec, ctx):
        fault = spec["fault"]
        r = Runner(spec, ctx)
        fired = False
        try:
            sut(r.build)
            propagated = None
            try:
                # `with display:` - __enter__ is start(); if it raises, __exit__ is not called
                d = r.display
                if r.kind == "status":
                    d.start()
                else:
                    d.start()
                r.started = True
                if r.kind == "progress":
                    r.drawn = r.frame_now()
                if not r.sync(["start"], 0):
                    return
                try:
                    for i, op in enumerate(spec["ops"]):
                        r.opi = i
                        if fault["mode"] == "body" and i == fault["after"]:
                            fired = True
                            raise (Boom if fault.get("base") else BoomE)("body")
                        before = r.fault.fired
                        if fault["mode"] == "render" and not fault["catch"]:
                            ok = self.apply_uncaught(r, list(op))  # a Boom escapes from the block
                        else:
                            ok = r.apply(list(op))
                        if r.fault.fired > before:
                            fired = True
                        if not ok:
                            return
                finally:
                    # __exit__ of the display
                    st_ = d._live._started if r.kind == "status" else d._started
                    if st_:
                        top = r.region_top()
                        was_dead = r.dead_screen or r.after_fault
                        try:
                            d.stop()
                        finally:
                            r.started = False
                            # whether or not the last draw raised, the rows printed before must still be there and the cursor must not have gone above them
                            r.dead_screen = was_dead
                            r.after_fault = False if not was_dead else r.after_fault
                            if not r.sync_prefix(["stop (leaving the block)"], top):
                                return
            except Boom as e:
                propagated = e
            except SutError:
                raise
            except Exception as e:  # noqa
                raise SutError(e)
            if r.fault.fired:
                fired = True
            if fired and propagated is None and not (fault["mode"] == "render" and fault["catch"]):
                ctx.violation("propagate", "C10/fault/swallowed", "the injected exception did not propagate (fault %r, history %r)" % (fault, spec["ops"]))
                return
            if not r.restored("in-the-block" if fault["mode"] == "body" else "in-a-render"):
                return
            if fired:
                ctx.nontrivial = True
                ctx.cls("fault-" + fault["mode"] + ("-caught" if fault.get("catch") else ""))
        finally:
            r.cleanup()

    @staticmethod
    def apply_uncaught(r, op):
        """Like Runner.apply but a Boom escapes (the program does not catch it)."""
        name = op[0]
        d = r.display
        if name == "print" and not op[1]:
            d.console.print()
        elif name == "print" and len(op) > 2 and op[2]:
            kw = dict(op[2])
            if "width_plus" in kw:
                kw["width"] = max(9, d.console.width + kw.pop("width_plus"))
            d.console.print(op[1][0][:8], **kw)
        elif name == "print":
            d.console.print("\n".join(op[1]))
        elif name == "log":
            d.console.log(op[1])
        elif name == "update":
            r.rend = list(op[1])
            if len(op) > 3 and op[3] and getattr(r, "frame_obj", None) is not None:
                r.frame_obj.lines = r.rend
            else:
                r.frame_obj = Frame(r.rend, r.fault)
            d.update(r.frame_obj, refresh=op[2])
        elif name == "refresh":
            d.refresh() if r.kind != "status" else d._live.refresh()
        elif name == "status":
            d.update(op[1])
        elif name == "add":
            if len(r.tasks) < r.H - 1:
                tid = d.add_task(op[1], total=10, visible=op[2])
                r.tasks.append([tid, op[1], 0, op[2]])
        elif name in ("advance", "visible", "remove"):
            if r.tasks:
                t = r.tasks[op[1] % len(r.tasks)]
                if name == "advance":
                    d.advance(t[0], op[2])
                elif name == "visible":
                    d.update(t[0], visible=op[2], refresh=op[3])
                else:
                    d.remove_task(t[0])
                    r.tasks.remove(t)
        elif name == "start":
            if not r.started:
                d.start()
                r.started = True
        elif name == "stop":
            if r.started:
                d.stop()
                r.started = False
        return True



class TrackGenerator(Part):
    name = "track-generator"
    rule = ("rich.progress.track(sequence, console=..., transient=...) used as a for loop that runs to the end, or is left early by break / return / an exception in the loop body "
            "(Exception or bare BaseException) after k elements, on a terminal console with redirection on: afterwards the cursor is visible, stdout/stderr are the original "
            "objects, no render hook is left, and the screen shows the printed lines followed by the last bar (nothing if transient); non-trivial = the loop was left early")
    budget = {"quick": (4, 60), "thorough": (16, 600)}
    chunk = 60

    def strategy(self, tier):
        return st.builds(lambda n, k, how, tr, pr, W: {"n": n, "k": k, "how": how, "transient": tr, "prints": pr, "W": W}, st.integers(1, 8), st.integers(0, 8),
                         st.sampled_from(["complete", "break", "return", "exception", "base-exception"]), st.booleans(), st.booleans(), st.integers(30, 80))

    def check(self, spec, ctx):
        import gc
        import rich.progress as RP

        con, f, twin = make_consoles(spec["W"], 12)
        old_out, old_err = sys.stdout, sys.stderr
        printed = []

        def loop():
            for i in RP.track(range(spec["n"]), description="job", console=con, transient=spec["transient"], auto_refresh=False):
                if spec["prints"]:
                    con.print("item %d" % i)
                    printed.append("item %d" % i)
                if i + 1 >= spec["k"] and spec["how"] != "complete":
                    if spec["how"] == "break":
                        break
                    if spec["how"] == "return":
                        return
                    raise (BoomE if spec["how"] == "exception" else Boom)("loop body")

        early = spec["how"] != "complete" and spec["k"] <= spec["n"] and spec["n"] > 0
        try:
            try:
                loop()
            except Boom:
                pass
            except Exception as e:  # noqa
                raise SutError(e)
            gc.collect()   # a generator that was left early is closed when it is released
            problems = []
            if sys.stdout is not old_out or sys.stderr is not old_err:
                problems.append("stdout/stderr still redirected")
            if con._render_hooks:
                problems.append("%d render hook(s) left" % len(con._render_hooks))
            vt = VT(spec["W"], 12)
            try:
                vt.feed(f.getvalue())
            except VTError as e:
                problems.append("stream: %s" % e)
            else:
                if not vt.cursor_visible:
                    problems.append("cursor left hidden")
                rows = [r for r in vt.screen() if r.strip()]
                if rows[:len(printed)] != printed[-12:][:len(rows[:len(printed)])] and len(printed) < 10:
                    problems.append("printed lines %r, screen %r" % (printed, rows))
                if spec["transient"] and any(r.startswith("job") for r in rows):
                    problems.append("a transient bar is still on the screen: %r" % rows)
                if sum(1 for r in rows if r.startswith("job")) > 1:
                    problems.append("more than one bar on the screen: %r" % rows)
            if problems:
                ctx.violation("restore", "C10/track/%s" % spec["how"], "after a track() loop over %d elements left by %s after %d: %s" % (spec["n"], spec["how"], spec["k"], "; ".join(problems)))
                return
        finally:
            sys.stdout, sys.stderr = old_out, old_err
        if early:
            ctx.nontrivial = True
        ctx.cls("loop-" + spec["how"])


PARTS = [Histories(), Faults(), PrintFaults(), ProgressShapes(), TrackGenerator()]
