"""C05 - Text editing operations keep characters and styles attached (model-based, history as data)."""
import re
from hypothesis import strategies as st

from ..core import Part, sut, SutError
from ..gen import styles as GS, chars as GC
from ..oracles import textview as TV, cells as OC
from ..oracles.textmodel import TM, strip, freeze, thaw
from . import c04 as C04

PROP_ID = "C05"
LEVEL = "exploration"
RULE = "Hypothesis-generated histories (<=12 ops) over a pool of Text values, each op applied to the real Text and to a list-of-(char, styles) model"
ASSUMPTIONS = [
    "constructor spans lie inside [0, len] with start <= end (spans outside the text are not a valid Text)",
    "characters inserted by padding, tab expansion and the ellipsis only have to exist; their style is not pinned down; "
    "a space that replaces half of a cut wide character keeps that character's style",
    "join() separators carry no base style (with a styled separator two readings are defensible - DESIGN 7.9); separator spans are allowed",
    "divide() offsets are sorted and lie in [0, len]; pad counts, right_crop amounts, set_length lengths are >= 0; widths >= 1 for truncate/align",
    "copy_styles() is given a text of the same length (documented precondition)",
    "cell-aware cropping may keep any prefix of the right width (trailing zero-width characters at the cut are free)",
]

PAL = GS.PALETTE
REGEXES = [r"\d+", r"[a-c]+", r"\s+", r"(?P<red>x+)|(?P<bold>y+)", r"\w+", r"$", r"a|b|"]
CTRL = "\x08\x0b\x0c\r"


def text_str(max_size=14):
    alpha = st.one_of(st.sampled_from("abcxyz012"), st.sampled_from("abcxyz012"), st.just(" "), st.just(" "), st.sampled_from(["\n", "\t"]), st.sampled_from(GC.WIDE[:6]), st.sampled_from(GC.ZERO[:3]), st.sampled_from(CTRL),
                       st.sampled_from("\x7f\x85\x9f\u00ad"))  # DEL, C1 controls, soft hyphen: zero cells by the width table, not removed by Text
    short = st.text(alpha, max_size=max_size)
    # now and then a long text whose length sits on a multiple of 64 (cell measurement treats long strings differently)
    long_ = st.builds(lambda unit, n: (unit * 200)[:n], st.sampled_from(["ab", "x", "a " + GC.WIDE[0]]), st.sampled_from([64, 128, 129, 192]))
    return st.one_of(short, short, short, short, short, short, short, short, short, long_) if max_size >= 14 else short


def style_opt():
    return st.one_of(st.none(), st.sampled_from(PAL))


def ctor_strategy():
    @st.composite
    def plain_ctor(draw):
        s = draw(text_str())
        n = len(strip(s))
        spans = []
        for _ in range(draw(st.integers(0, 4))):
            a = draw(st.integers(0, n))
            b = draw(st.integers(a, n))
            spans.append([a, b, draw(st.sampled_from(PAL))])
        return ["text", s, draw(style_opt()), spans, draw(st.sampled_from([8, 8, 4, 2, 3]))]

    styled = st.builds(lambda s, sty: ["styled", s, sty], text_str(), st.sampled_from(PAL))
    part = st.one_of(text_str(6), st.tuples(text_str(6), st.sampled_from(PAL)).map(list))
    assemble = st.builds(lambda parts, base: ["assemble", parts, base], st.lists(part, max_size=4), style_opt())
    markup = C04.well_nested().map(lambda evs: ["markup", evs])
    return st.one_of(plain_ctor(), plain_ctor(), styled, assemble, markup)


def op_strategy():
    i = st.integers(0, 7)
    off = st.integers(-5, 22)
    n = st.integers(0, 8)
    ch = st.sampled_from([" ", "-", "*", GC.WIDE[0]])
    ops = [
        st.tuples(st.just("append_str"), i, text_str(6), style_opt()),
        # the last flag: the text is appended to itself (the very same object)
        st.tuples(st.just("append_text"), i, i, st.booleans(), st.sampled_from([False, False, False, False, True])),
        # append_tokens: (content, style) pairs; control characters that Text removes elsewhere are kept out of the tokens (append_tokens does not remove them)
        st.tuples(st.just("append_tokens"), i, st.lists(st.tuples(text_str(5).map(lambda x: "".join(c for c in x if c not in CTRL)), style_opt()).map(list), max_size=4)),
        st.tuples(st.just("add"), i, i),
        st.tuples(st.just("add_str"), i, text_str(5)),
        # join: what kind of iterable the pieces come in (a list, a tuple, a generator, an iterator, reversed(), map())
        st.tuples(st.just("join"), i, st.lists(i, max_size=3), st.sampled_from(["list", "list", "tuple", "gen", "iter", "reversed", "map"])),
        st.tuples(st.just("split"), i, st.sampled_from(["\n", " ", "a", "ab", "  "]), st.booleans(), st.booleans(), n),
        st.sampled_from(["ab", "  ", "a ", " a", "\n\n"]).flatmap(lambda sep: st.tuples(st.just("append_split"), i, text_str(4).map(lambda x: sep[1:] + x), style_opt(), st.just(sep), st.booleans(), st.booleans(), n)),
        st.tuples(st.just("divide"), i, st.lists(st.integers(0, 20), max_size=4), n),
        st.tuples(st.just("index"), i, off),
        st.tuples(st.just("slice"), i, st.one_of(st.none(), off), st.one_of(st.none(), off)),
        st.tuples(st.sampled_from(["pad", "pad_left", "pad_right"]), i, st.integers(0, 4), ch),
        st.tuples(st.just("align"), i, st.sampled_from(["left", "center", "right"]), st.one_of(st.integers(1, 24), st.integers(1, 200)), ch),
        st.tuples(st.just("truncate"), i, st.one_of(st.integers(1, 24), st.integers(1, 200)), st.sampled_from([None, "crop", "fold", "ellipsis", "ignore"]), st.booleans()),
        st.tuples(st.just("right_crop"), i, st.integers(0, 20)),
        st.tuples(st.just("remove_suffix"), i, st.one_of(st.integers(0, 4), st.sampled_from(["", "a", "zz"]))),
        st.tuples(st.just("rstrip"), i),
        st.tuples(st.just("rstrip_end"), i, st.integers(0, 20)),
        st.tuples(st.just("set_length"), i, st.integers(0, 24)),
        st.tuples(st.just("expand_tabs"), i, st.one_of(st.integers(1, 8), st.none())),
        st.tuples(st.just("copy"), i),
        st.tuples(st.just("share_spans"), i),
        st.tuples(st.just("stylize"), i, st.sampled_from(PAL), off, st.one_of(st.none(), off)),
        st.tuples(st.just("stylize"), i, st.sampled_from(PAL), off, st.one_of(st.none(), off)),
        st.tuples(st.just("highlight_regex"), i, st.integers(0, len(REGEXES) - 1), style_opt()),
        st.tuples(st.just("highlight_words"), i, st.lists(st.sampled_from(["a", "ab", "x", "1", " ", "A", GC.WIDE[0]]), min_size=1, max_size=3), st.sampled_from(PAL), st.booleans()),
        st.tuples(st.just("copy_styles"), i, st.sampled_from(PAL), off, st.one_of(st.none(), off)),
        # copy_styles from another value of the pool (applies only while the two have the same length, e.g. a kept copy whose original was restyled since)
        st.tuples(st.just("copy_styles_from"), i, i),
    ]
    return st.one_of(*ops).map(list)


MOVERS = {"split", "divide", "index", "slice", "truncate", "right_crop", "remove_suffix", "rstrip", "rstrip_end", "set_length", "align", "join", "append_text", "add", "expand_tabs"}


def build_ctor(c):
    """-> (Text, TM)"""
    from rich.text import Text, Span

    kind = c[0]
    if kind == "text":
        _, s, base, spans = c[:4]
        tab = c[4] if len(c) > 4 else 8
        t = sut(Text, s, style=GS.build_style(base) if base else "", spans=[Span(a, b, GS.build_style(sty)) for a, b, sty in spans], tab_size=tab)
        m = TM.make(s, base, spans)
        m.tab = tab
        return t, m
    if kind == "styled":
        _, s, sty = c
        t = sut(Text.styled, s, GS.build_style(sty))
        m = TM.make(s)
        return t, m.stylize(sty, 0, None)
    if kind == "assemble":
        _, parts, base = c
        args = [p if isinstance(p, str) else (p[0], GS.build_style(p[1])) for p in parts]
        t = sut(Text.assemble, *args, style=GS.build_style(base) if base else "")
        m = TM.make("", base)
        for p in parts:
            m = m.append_str(p) if isinstance(p, str) else m.append_str(p[0], p[1])
        return t, m
    _, evs = c
    for ev in evs:
        if ev[0] == "text" and not C04.side_ok(ev[1]):
            evs = [e for e in evs if e[0] != "text" or C04.side_ok(e[1])]
            break
    res = C04.interpret(evs)
    t = sut(Text.from_markup, res[1], emoji=False)
    chars = [(ch, tuple(freeze(x) for x in [spec] if True)) for ch, spec in zip(res[2], res[3])]
    return t, TM(None, chars)


def compare(ctx, t, m, desc, sigop):
    plain = t.plain
    mp = m.plain
    if plain != mp:
        ctx.violation("plain", "C05/plain/" + sigop, "%s: plain %r, ordinary-string result %r" % (desc, plain, mp))
        return False
    try:
        tl = len(t)
    except ValueError as e:
        ctx.violation("len", "C05/len/" + sigop, "%s: len() raised %r; the text is %r" % (desc, e, plain))
        return False
    if tl != len(mp):
        ctx.violation("len", "C05/len/" + sigop, "%s: len() = %d but the text is %r (%d characters)" % (desc, tl, plain, len(mp)))
        return False
    try:
        got = TV.char_styles(t)
    except Exception as e:  # noqa  (rendering the value the operation produced)
        raise SutError(e)
    want = m.views()
    if len(got) != len(want):
        ctx.violation("style", "C05/style/" + sigop, "%s: rendered %d characters of %d" % (desc, len(got), len(want)))
        return False
    for k, ((gc, gv), (wc, wv)) in enumerate(zip(got, want)):
        if wv is not None and gv != wv:
            ctx.violation("style", "C05/style/" + sigop, "%s: character %d %r has style %r, expected %r (text %r spans %r)" % (desc, k, gc, gv, wv, plain, t.spans))
            return False
    return True


def resolve(ctx, t, cands, desc, sigop, tail=()):
    """Pick the candidate char list whose plain text equals the real result."""
    plain = t.plain
    for c in cands:
        if "".join(ch for ch, _ in c) + "".join(ch for ch, _ in tail) == plain:
            return c + list(tail)
    ctx.violation("plain", "C05/plain/" + sigop, "%s: plain %r is none of the acceptable results %r" % (desc, plain, ["".join(ch for ch, _ in c) + "".join(ch for ch, _ in tail) for c in cands][:4]))
    return None


class Histories(Part):
    name = "histories"
    rule = ("pool of 1-3 Text values built by Text()/styled/assemble/from_markup (strings include the four stripped control characters, tabs, wide and "
            "zero-width characters) + <=12 ops out of 27 kinds with raw integer offsets in [-5, 22] (copy_styles takes a fresh one-span donor, or another value "
            "of the pool when it has the same length); after every op plain, len() and per-character "
            "effective styles are compared with the model; non-trivial = >=4 ops applied, a styled character survives, and an op removed or moved characters")
    budget = {"quick": (16, 1500), "thorough": (16, 20000)}

    def strategy(self, tier):
        return st.builds(lambda pool, ops, lazy: {"pool": pool, "ops": ops, "lazy": lazy}, st.lists(ctor_strategy(), min_size=1, max_size=3), st.lists(op_strategy(), min_size=1, max_size=12),
                         st.sampled_from([False, False, True]))

    def check(self, spec, ctx):
        from rich.text import Text

        pool = []
        for c in spec["pool"]:
            t, m = build_ctor(c)
            if not compare(ctx, t, m, "construct %r" % (c,), "ctor-" + c[0]):
                return
            pool.append((t, m))
        applied = 0
        moved = False
        for op in spec["ops"]:
            name = op[0]
            i = op[1] % len(pool)
            t, m = pool[i]
            desc = "%r on %r" % (op, m.plain)
            new = None  # (Text, TM) replacing pool[i]
            if name == "append_split":
                # append() directly followed by split() with a separator of two characters (nothing reads the text in between): the separator may
                # straddle the boundary between what was there and what was appended
                sut(t.append, op[2], GS.build_style(op[3]))
                m = m.append_str(op[2], op[3])
                pool[i] = (t, m)
                op = ["split", op[1]] + list(op[4:])
                name = "split"
                desc = "append + %r on %r" % (op, m.plain)
                ctx.cls("append-then-split")
            if name == "append_str":
                _, _, s, sty = op
                sut(t.append, s, GS.build_style(sty))
                new = (t, m.append_str(s, sty))
            elif name == "append_tokens":
                toks = op[2]
                sut(t.append_tokens, [(x, GS.build_style(sty) if sty else None) for x, sty in toks])
                mm = m
                for x, sty in toks:
                    mm = mm.append_str(x, sty)
                new = (t, mm)
            elif name == "append_text":
                _, _, j, fast = op[:4]
                o, om = pool[j % len(pool)]
                o = sut(o.copy)
                if len(op) > 4 and op[4]:
                    o, om = t, m
                    ctx.cls("appended-to-itself")
                if fast:
                    sut(t.append_text, o)
                else:
                    sut(t.append, o)
                new = (t, m.append_model(om))
            elif name == "add":
                o, om = pool[op[2] % len(pool)]
                r = sut(lambda: t + o)
                if not compare(ctx, t, m, desc + " (left operand afterwards)", "add-operand"):
                    return
                new = (r, m.append_model(om))
            elif name == "add_str":
                r = sut(lambda: t + op[2])
                new = (r, m.append_str(op[2]))
            elif name == "join":
                if m.base is not None:
                    continue
                items = [pool[j % len(pool)] for j in op[2]]
                how = op[3] if len(op) > 3 else "list"
                seq = [x[0] for x in items]
                if how == "reversed":
                    items = items[::-1]
                arg = {"list": lambda: seq, "tuple": lambda: tuple(seq), "gen": lambda: (x for x in seq), "iter": lambda: iter(seq), "reversed": lambda: reversed(seq), "map": lambda: map(lambda x: x, seq)}[how]()
                r = sut(t.join, arg)
                if how not in ("list", "tuple") and len(seq) and not m.plain:
                    ctx.cls("join-one-shot-iterable-empty-separator")
                rm = TM(m.base, [])
                for k, (_, im) in enumerate(items):
                    rm = rm.append_model(im)
                    if k < len(items) - 1:
                        rm = rm.append_model(m)
                new = (r, rm.without_tab())
            elif name == "split":
                _, _, sep, incl, blank, pick = op
                lines = list(sut(t.split, sep, include_separator=incl, allow_blank=blank))
                s = m.plain
                if sep not in s:
                    pieces = [(0, len(s))]
                else:
                    pieces = []
                    pos = 0
                    for mt in re.finditer(re.escape(sep), s):
                        pieces.append((pos, mt.end() if incl else mt.start()))
                        pos = mt.end()
                    pieces.append((pos, len(s)))
                    if not blank and pieces[-1][0] == len(s):
                        pieces.pop()   # the string ends with a separator: the empty piece after it is dropped
                if len(lines) != len(pieces):
                    ctx.violation("plain", "C05/plain/split", "%s: %d pieces %r, str.split gives %d" % (desc, len(lines), [l.plain for l in lines], len(pieces)))
                    return
                for l, (a, b) in zip(lines, pieces):
                    if not compare(ctx, l, m.slice(a, b), desc + " piece", "split"):
                        return
                if not compare(ctx, t, m, desc + " (source afterwards)", "split-source"):
                    return
                if lines:
                    k = pick % len(lines)
                    new = (lines[k], m.slice(*pieces[k]).without_tab())
            elif name == "divide":
                offs = sorted(min(o, len(m)) for o in op[2])
                lines = list(sut(t.divide, offs))
                bounds = [0] + offs + [len(m)] if offs else [0, len(m)]
                pieces = list(zip(bounds, bounds[1:]))
                if len(lines) != len(pieces):
                    ctx.violation("plain", "C05/plain/divide", "%s: %d pieces, expected %d" % (desc, len(lines), len(pieces)))
                    return
                for l, (a, b) in zip(lines, pieces):
                    if not compare(ctx, l, m.slice(a, b), desc + " piece [%d:%d]" % (a, b), "divide"):
                        return
                k = op[3] % len(lines)
                new = (lines[k], m.slice(*pieces[k]).without_tab())
            elif name == "index":
                k = op[2]
                s = m.plain
                try:
                    want = s[k]
                except IndexError:
                    try:
                        t[k]
                    except IndexError:
                        continue
                    except Exception as e:  # noqa
                        raise SutError(e)
                    ctx.violation("plain", "C05/plain/index", "%s: no IndexError" % desc)
                    return
                r = sut(lambda: t[k])
                kk = k if k >= 0 else len(s) + k
                new = (r, m.slice(kk, kk + 1).without_tab())
            elif name == "slice":
                a, b = op[2], op[3]
                r = sut(lambda: t[a:b])
                sa, sb, _ = slice(a, b).indices(len(m))
                new = (r, m.slice(sa, max(sa, sb)).without_tab())
            elif name in ("pad", "pad_left", "pad_right"):
                _, _, cnt, c = op
                sut(getattr(t, name), cnt, c)
                left = m.wild(c * cnt) if name in ("pad", "pad_left") else []
                right = m.wild(c * cnt) if name in ("pad", "pad_right") else []
                new = (t, m.with_chars(left + m.chars + right))
            elif name == "truncate" or name == "align":
                if name == "truncate":
                    _, _, width, overflow, pad = op
                    sut(t.truncate, width, overflow=overflow, pad=pad)
                else:
                    _, _, method, width, c = op
                    overflow, pad = None, False
                    sut(t.align, method, width, c)
                eff = overflow or "fold"
                w = m.width()
                chars = list(m.chars)
                if eff != "ignore" or name == "align":
                    if w > width:
                        if eff == "ellipsis":
                            cands = m.cut_candidates(width - 1)
                            tail = m.wild("…")
                        else:
                            cands = m.cut_candidates(width)
                            tail = []
                        if name == "align":
                            chars = None
                            for cnd in cands:
                                cp = "".join(ch for ch, _ in cnd)
                                if t.plain == cp:
                                    chars = cnd
                            if chars is None:
                                ctx.violation("plain", "C05/plain/align", "%s: plain %r is none of %r" % (desc, t.plain, ["".join(ch for ch, _ in c2) for c2 in cands][:4]))
                                return
                        else:
                            chars = resolve(ctx, t, cands, desc, "truncate", tail)
                            if chars is None:
                                return
                    if name == "truncate" and pad and w < width:
                        chars = chars + m.wild(" " * (width - w))
                    if name == "align" and w < width:
                        extra = width - w
                        if method == "left":
                            chars = chars + m.wild(c * extra)
                        elif method == "center":
                            chars = m.wild(c * (extra // 2)) + chars + m.wild(c * (extra - extra // 2))
                        else:
                            chars = m.wild(c * extra) + chars
                new = (t, m.with_chars(chars))
            elif name == "right_crop":
                amt = op[2]
                sut(t.right_crop, amt)
                new = (t, m.slice(0, max(0, len(m) - amt)))
            elif name == "remove_suffix":
                suf = op[2]
                if isinstance(suf, int):
                    suf = m.plain[len(m) - suf:] if suf else ""
                sut(t.remove_suffix, suf)
                mm = m.slice(0, len(m) - len(suf)) if m.plain.endswith(suf) else m
                new = (t, mm)
            elif name == "rstrip":
                sut(t.rstrip)
                new = (t, m.slice(0, len(m.plain.rstrip())))
            elif name == "rstrip_end":
                size = op[2]
                sut(t.rstrip_end, size)
                s = m.plain
                ws = len(s) - len(s.rstrip())
                cells = OC.width(s)  # "size" is a width: whitespace beyond that many cells is removed
                cut = min(ws, cells - size) if cells > size else 0
                new = (t, m.slice(0, len(s) - max(0, cut)))
            elif name == "set_length":
                nl = op[2]
                sut(t.set_length, nl)
                if nl >= len(m):
                    new = (t, m.with_chars(m.chars + m.wild(" " * (nl - len(m)))))
                else:
                    new = (t, m.slice(0, nl))
            elif name == "expand_tabs":
                size = op[2]
                if size is None:
                    if m.tab is None:
                        continue  # this value came out of an operation that does not carry the tab size over
                    sut(t.expand_tabs)
                    size = m.tab
                else:
                    sut(t.expand_tabs, size)
                chars = []
                col = 0
                for c, o in m.chars:
                    if c == "\t":
                        k = size - (col % size)
                        chars.extend(m.wild(" " * k))
                        col += k
                    else:
                        chars.append((c, o))
                        col = 0 if c == "\n" else col + 1
                mm = m.with_chars(chars)
                if mm.plain != m.plain.expandtabs(size):
                    raise AssertionError("model expandtabs disagrees with str.expandtabs")
                new = (t, mm)
            elif name == "share_spans":
                # one list of spans is given to two texts through the `spans` setter (each text must keep a list of its own)
                if len(pool) >= 5:
                    continue
                r = sut(t.copy)
                shared = list(t.spans)
                t.spans = shared
                r.spans = shared
                pool.append((r, m.copy()))
                applied += 1
                ctx.cls("spans-set-from-one-list")
                continue
            elif name == "copy":
                r = sut(t.copy)
                if len(pool) < 4:
                    pool.append((r, m.copy()))
                    if not compare(ctx, r, m, desc, "copy"):
                        return
                    applied += 1
                    ctx.cls("copy-kept")
                    continue
                new = (r, m.copy())
            elif name == "stylize":
                _, _, sty, a, b = op
                before = t.plain
                sut(t.stylize, GS.build_style(sty), a, b)
                if t.plain != before:
                    ctx.violation("style-only", "C05/styleonly/stylize", "%s changed the characters" % desc)
                    return
                new = (t, m.stylize(sty, a, b))
            elif name == "highlight_regex":
                _, _, ri, sty = op
                rx = REGEXES[ri]
                before = t.plain
                sut(t.highlight_regex, rx, GS.build_style(sty))
                if t.plain != before:
                    ctx.violation("style-only", "C05/styleonly/highlight_regex", "%s changed the characters" % desc)
                    return
                spans = []
                named = {"red": PAL[0], "bold": PAL[3]}
                for mt in re.finditer(rx, m.plain):
                    if sty is not None:
                        spans.append((mt.start(), mt.end(), sty))
                    for g in mt.groupdict():
                        a, b = mt.span(g)
                        if a != -1:
                            spans.append((a, b, named[g]))
                new = (t, m.add_spans(spans))
            elif name == "highlight_words":
                _, _, words, sty, case = op
                before = t.plain
                sut(t.highlight_words, words, GS.build_style(sty), case_sensitive=case)
                if t.plain != before:
                    ctx.violation("style-only", "C05/styleonly/highlight_words", "%s changed the characters" % desc)
                    return
                rx = "|".join(re.escape(w) for w in words)
                spans = [(mt.start(), mt.end(), sty) for mt in re.finditer(rx, m.plain, flags=0 if case else re.IGNORECASE)]
                new = (t, m.add_spans(spans))
            elif name == "copy_styles":
                _, _, sty, a, b = op
                other = sut(t.copy)
                n_before = len(other.spans)
                sut(other.stylize, GS.build_style(sty), a, b)
                donor = sut(Text, t.plain)
                donor.spans = other.spans[n_before:]
                before = t.plain
                sut(t.copy_styles, donor)
                if t.plain != before:
                    ctx.violation("style-only", "C05/styleonly/copy_styles", "%s changed the characters" % desc)
                    return
                new = (t, m.stylize(sty, a, b))
            elif name == "copy_styles_from":
                o, om = pool[op[2] % len(pool)]
                if len(om) != len(m) or len(t.spans) + len(o.spans) > 400:
                    continue  # documented precondition: same length (and repeated self-copies are not left to double the span list for ever)
                sut(t.copy_styles, o)
                new = (t, m.copy_styles(om))
            else:
                raise AssertionError("unknown op %r" % (op,))
            if new is None:
                continue
            applied += 1
            if name in MOVERS and (len(new[1]) != len(m) or name in ("split", "divide", "slice", "index", "join")):
                moved = True
            if spec.get("lazy"):
                # nothing is read between the steps (reading .plain joins the pieces appended so far); every value is compared once at the end
                pool[i] = new
                ctx.cls(name)
                continue
            if not compare(ctx, new[0], new[1], desc, name):
                return
            pool[i] = new
            ctx.cls(name)
            # values that were not the target of the operation must be untouched (no aliasing between copies)
            for j, (ot, om) in enumerate(pool):
                if j != i and not compare(ctx, ot, om, desc + " (another value, #%d, afterwards)" % j, "alias-" + name):
                    return
        if spec.get("lazy"):
            ctx.cls("compared-only-at-the-end")
            for j, (ot, om) in enumerate(pool):
                if not compare(ctx, ot, om, "after %r (value #%d, nothing was read in between)" % (spec["ops"], j), "lazy"):
                    return
        styled_survivor = any(o for _, mm in pool for _, o in mm.chars if o) or any(mm.base is not None and len(mm) for _, mm in pool)
        if applied >= 4 and styled_survivor and moved:
            ctx.nontrivial = True


def tab_history_strategy():
    i = st.integers(0, 7)
    tabbed = st.text(st.sampled_from(["a", "b", " ", "\t", "\t", "\n", GC.WIDE[0]]), min_size=1, max_size=10).filter(lambda x: "\t" in x)

    @st.composite
    def ctor(draw):
        s = draw(tabbed)
        spans = []
        for _ in range(draw(st.integers(0, 3))):
            a = draw(st.integers(0, len(s)))
            spans.append([a, draw(st.integers(a, len(s))), draw(st.sampled_from(PAL))])
        return ["text", s, draw(style_opt()), spans, draw(st.integers(1, 10))]

    deriving = st.one_of(
        st.tuples(st.just("copy"), i),
        st.tuples(st.just("copy"), i),
        st.tuples(st.just("add"), i, i),
        st.tuples(st.just("add_str"), i, tabbed),
        st.tuples(st.just("append_str"), i, tabbed, style_opt()),
        st.tuples(st.just("append_text"), i, i, st.booleans(), st.just(False)),
        st.tuples(st.just("share_spans"), i),
        st.tuples(st.just("stylize"), i, st.sampled_from(PAL), st.integers(-5, 12), st.one_of(st.none(), st.integers(-5, 12))),
        st.tuples(st.just("copy_styles_from"), i, i),
        st.tuples(st.sampled_from(["pad_left", "pad_right"]), i, st.integers(0, 3), st.just(" ")),
        st.tuples(st.just("right_crop"), i, st.integers(0, 3)),
        st.tuples(st.just("set_length"), i, st.integers(0, 12)),
    ).map(list)
    expand = st.tuples(st.just("expand_tabs"), i, st.none()).map(list)
    return st.builds(lambda pool, first, e1, more, e2, lazy: {"pool": pool, "ops": first + [e1] + more + [e2], "lazy": lazy},
                     st.lists(ctor(), min_size=1, max_size=2), st.lists(deriving, min_size=1, max_size=4), expand, st.lists(deriving, max_size=2), expand,
                     st.sampled_from([False, False, True]))


class TabHistories(Histories):
    name = "tab-histories"
    rule = ("histories of the same shape as in `histories` (same check, same model), aimed at the settings a value carries: pool of 1-2 Text(string with at "
            "least one tab, tab_size 1..10, <=3 spans), then 1-4 ops that derive values or edit in place (copy kept as a further value, +, + str, append, "
            "append_text, spans set from one list, stylize, copy_styles from a value of the same length, pad_left/right, right_crop, set_length), then "
            "expand_tabs() WITHOUT a size on one of the values, <=2 more such ops and another expand_tabs(); the plain string must be what "
            "str.expandtabs(the value's own tab size) gives, len() and the styles of the surviving characters as in the model; non-trivial as in `histories`")
    budget = {"quick": (16, 150), "thorough": (16, 3000)}

    def strategy(self, tier):
        return tab_history_strategy()


NAMED = {"red": PAL[0], "blue": PAL[1], "green": PAL[2], "bold": PAL[3]}
HL_REGEXES = [r"(?P<red>x+)|(?P<bold>y+)", r"(?P<green>\d+)", r"(?P<blue>[a-c]+)", r"(?P<bold>\w+)", r"(?P<red>\s+)", r"(?P<green>[a-z])(?P<blue>[a-z0-9])?"]


def spec_str(spec):
    """A style spec written as a style definition string ('not bold red on yellow link ...')."""
    words = [("" if v else "not ") + k for k, v in sorted(spec["attrs"].items())]
    if spec["color"] is not None:
        words.append(spec["color"])
    if spec["bgcolor"] is not None:
        words.append("on " + spec["bgcolor"])
    if spec["link"] is not None:
        words.append("link " + spec["link"])
    return " ".join(words)


def restyle_strategy():
    @st.composite
    def spec(draw):
        s = draw(text_str(12).filter(lambda x: len(strip(x)) >= 2))
        n = len(strip(s))
        regions = []
        for _ in range(draw(st.integers(2, 5))):
            if draw(st.integers(0, 5)) == 0:
                a = draw(st.integers(-n - 2, n + 2))
                b = draw(st.one_of(st.none(), st.integers(-n - 2, n + 3)))
            else:
                a = draw(st.integers(0, n - 1))
                b = draw(st.integers(a + 1, n))
            regions.append([a, b, draw(st.sampled_from(PAL))])
        r = st.integers(0, len(regions) - 1)
        texts = draw(st.lists(st.tuples(style_opt(), st.lists(r, max_size=4), st.sampled_from(["ctor", "stylize"])).map(list), min_size=1, max_size=3))
        i = st.integers(0, 7)
        ops = st.one_of(
            st.tuples(st.just("stylize"), i, r, st.booleans()),
            st.tuples(st.just("stylize"), i, r, st.booleans()),
            st.tuples(st.just("copy_styles"), i, i),
            st.tuples(st.just("copy_styles"), i, i),
            st.tuples(st.just("copy_styles"), i, i),
            st.tuples(st.just("copy"), i),
            st.tuples(st.just("rebuild"), i),
            st.tuples(st.just("set_spans"), i, i),
            st.tuples(st.just("highlight_regex"), i, st.integers(0, len(REGEXES) - 1), style_opt()),
            st.tuples(st.just("highlight_words"), i, st.lists(st.sampled_from(["a", "ab", "x", "1", " ", "A", GC.WIDE[0]]), min_size=1, max_size=3), st.sampled_from(PAL), st.booleans()),
            st.tuples(st.just("highlighter"), i, st.lists(st.integers(0, len(HL_REGEXES) - 1), min_size=1, max_size=3), st.booleans()),
        ).map(list)
        return {"s": s, "regions": regions, "texts": texts, "ops": draw(st.lists(ops, min_size=1, max_size=10))}

    return spec()


def resolve_region(n, a, b):
    """What stylize(style, a, b) covers on a text of n characters (negative offsets count from the end): (start, end) inside [0, n], or None."""
    if a < 0:
        a = n + a
    if b is None:
        b = n
    if b < 0:
        b = n + b
    if a >= n or b <= a:
        return None
    a, b = max(0, a), min(n, b)
    return (a, b) if b > a else None


class Restyling(Part):
    name = "restyling"
    rule = ("1-3 Text values over ONE string (so copy_styles' same-length precondition always holds), each with a base style and spans taken from a small "
            "set of 2-5 regions (start, end, style) that all values and all later ops share - so spans equal to ones a value already owns, or to ones another "
            "value owns, recur all the time; then <=10 styling-only ops: stylize(region, style given as a Style or as its definition string), "
            "copy_styles(from another value / from a value with equal spans / from itself), copy (kept as a further value), rebuild (blank_copy + plain= + "
            "copy_styles), spans = other.spans, highlight_regex, highlight_words, a RegexHighlighter (in place or through __call__) - the same one possibly "
            "several times. After every op the plain string, len() and the per-character effective styles of EVERY value are compared with the model (each "
            "character carries the list of styles applied so far, later ones on top; copy_styles puts the other value's styles on top in their order). "
            "non-trivial = >=3 ops applied, a copy_styles between two values (or a rebuild) took place, and at the end some character carries >=3 styles")
    budget = {"quick": (16, 500), "thorough": (16, 8000)}

    def strategy(self, tier):
        return restyle_strategy()

    def check(self, spec, ctx):
        from rich.text import Text, Span
        from rich.highlighter import RegexHighlighter

        s = spec["s"]
        regions = spec["regions"]
        n = len(strip(s))
        pool = []
        for base, idxs, how in spec["texts"]:
            m = TM.make(s, base)
            if how == "ctor":
                spans = []
                for k in idxs:
                    a, b, sty = regions[k]
                    rr = resolve_region(n, a, b)
                    if rr is not None:
                        spans.append(Span(rr[0], rr[1], GS.build_style(sty)))
                        m = m.stylize(sty, rr[0], rr[1])
                t = sut(Text, s, style=GS.build_style(base) if base else "", spans=spans)
            else:
                t = sut(Text, s, style=GS.build_style(base) if base else "")
                for k in idxs:
                    a, b, sty = regions[k]
                    sut(t.stylize, GS.build_style(sty), a, b)
                    m = m.stylize(sty, a, b)
            if not compare(ctx, t, m, "construct %r over %r" % ([base, idxs, how], s), "restyle-ctor"):
                return
            pool.append((t, m))
        applied = 0
        copied = False
        for op in spec["ops"]:
            name = op[0]
            i = op[1] % len(pool)
            t, m = pool[i]
            before = t.plain
            desc = "%r on value #%d of %r (regions %r)" % (op, i, [(mm.plain, tt.spans) for tt, mm in pool], regions)
            new = None
            if name == "stylize":
                a, b, sty = regions[op[2]]
                sut(t.stylize, spec_str(sty) if op[3] else GS.build_style(sty), a, b)
                new = (t, m.stylize(sty, a, b))
            elif name == "copy_styles":
                j = op[2] % len(pool)
                o, om = pool[j]
                if len(t.spans) + len(o.spans) > 400:
                    continue  # repeated self-copies are not left to double the span list for ever
                sut(t.copy_styles, o)
                new = (t, m.copy_styles(om))
                if j != i:
                    copied = True
                else:
                    ctx.cls("copy_styles-from-itself")
            elif name == "copy":
                r = sut(t.copy)
                if len(pool) < 5:
                    pool.append((r, m.copy()))
                    i = len(pool) - 1
                    new = pool[i]
                else:
                    new = (r, m.copy())
            elif name == "rebuild":
                # the value is built again from its parts: the settings, the characters, then the styles
                r = sut(t.blank_copy)
                r.plain = t.plain
                sut(r.copy_styles, t)
                copied = True
                if len(pool) < 5:
                    pool.append((r, m.copy()))
                    i = len(pool) - 1
                    new = pool[i]
                else:
                    new = (r, m.copy())
            elif name == "set_spans":
                j = op[2] % len(pool)
                o, om = pool[j]
                t.spans = o.spans
                new = (t, m.with_chars([(c, oo) for (c, _), (_, oo) in zip(m.chars, om.chars)]))
            elif name == "highlight_regex":
                _, _, ri, sty = op
                rx = REGEXES[ri]
                sut(t.highlight_regex, rx, GS.build_style(sty))
                spans = []
                for mt in re.finditer(rx, m.plain):
                    if sty is not None:
                        spans.append((mt.start(), mt.end(), sty))
                    for g in mt.groupdict():
                        a, b = mt.span(g)
                        if a != -1:
                            spans.append((a, b, NAMED[g]))
                new = (t, m.add_spans(spans))
            elif name == "highlight_words":
                _, _, words, sty, case = op
                sut(t.highlight_words, words, GS.build_style(sty), case_sensitive=case)
                rx = "|".join(re.escape(w) for w in words)
                new = (t, m.add_spans([(mt.start(), mt.end(), sty) for mt in re.finditer(rx, m.plain, flags=0 if case else re.IGNORECASE)]))
            elif name == "highlighter":
                _, _, ris, inplace = op
                rxs = [HL_REGEXES[k] for k in ris]
                hl = type("H", (RegexHighlighter,), {"base_style": "", "highlights": rxs})()
                spans = []
                for rx in rxs:
                    for mt in re.finditer(rx, m.plain):
                        for g in mt.groupdict():
                            a, b = mt.span(g)
                            if a != -1:
                                spans.append((a, b, NAMED[g]))
                if inplace:
                    sut(hl.highlight, t)
                    new = (t, m.add_spans(spans))
                else:
                    r = sut(hl, t)
                    if not compare(ctx, t, m, desc + " (the argument afterwards)", "restyle-highlighter-arg"):
                        return
                    new = (r, m.add_spans(spans))
            else:
                raise AssertionError("unknown op %r" % (op,))
            applied += 1
            ctx.cls("restyle-" + name)
            if new[0].plain != before:
                ctx.violation("style-only", "C05/styleonly/restyle-" + name, "%s changed the characters: %r" % (desc, new[0].plain))
                return
            if not compare(ctx, new[0], new[1], desc, "restyle-" + name):
                return
            pool[i] = new
            for j, (ot, om) in enumerate(pool):
                if j != i and not compare(ctx, ot, om, desc + " (another value, #%d, afterwards)" % j, "restyle-alias-" + name):
                    return
        if applied >= 3 and copied and any(o is not None and len(o) >= 3 for _, mm in pool for _, o in mm.chars):
            ctx.nontrivial = True


PARTS = [Histories(), Restyling(), TabHistories()]
