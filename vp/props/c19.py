"""C19 - the ANSI decoder inverts the encoder, and redirected output is never lost."""
import io
import sys
from hypothesis import strategies as st

from ..core import Part, sut, SutError
from ..gen import styles as GS, chars as GC
from ..oracles import sgr as SGR
from . import c03 as C03

PROP_ID = "C19"
LEVEL = "exploration"
RULE = "Hypothesis: styled texts through encoder->decoder; streams of SGR/OSC-8 coded lines cut into write()/flush() calls through FileProxy, judged by an independent stream interpreter"
ASSUMPTIONS = [
    "attributes are compared as the set that is on (a 'not X' has no SGR encoding); unset and 'default' colours are the same terminal state",
    "stream lines are <= 150 cells on a 200-cell console, so console wrapping does not enter the comparison - DESIGN 7.14",
    "a flush may fall anywhere between two characters but not inside an escape sequence (no implementation can emit half a sequence meaningfully); write() cuts fall anywhere",
    "stream text has no tabs, carriage returns or other C0 controls; escape sequences are SGR and OSC 8 only (other CSI sequences are documented to be dropped)",
]


def canon_style(style):
    """(attrs on, fg, bg, link) of a decoded rich Style in the interpreter's vocabulary."""
    attrs = frozenset(a for a in GS.ATTRS if getattr(style, a)) if style is not None else frozenset()
    fg = C03.Stream.canon(style.color) if style is not None and style.color is not None else SGR.DEFAULT
    bg = C03.Stream.canon(style.bgcolor) if style is not None and style.bgcolor is not None else SGR.DEFAULT
    link = style.link if style is not None else None
    return (attrs, fg, bg, link)


class Decode(Part):
    name = "decode"
    rule = ("1-8 styled segments (C03 style space, ESC-free text with newlines) printed on a truecolor terminal console 1000 cells wide, then "
            "AnsiDecoder().decode(output): same characters per line and per character the same attributes-on, fg, bg, link; "
            "non-trivial = >= 2 differently styled runs on one line")
    budget = {"quick": (8, 1500), "thorough": (16, 12000)}

    def strategy(self, tier):
        # also characters that str.splitlines() treats as line ends but terminals and rich do not (NEL, FS, LS, PS)
        text = st.one_of(C03.seg_text(), C03.seg_text(), C03.seg_text(), st.lists(st.sampled_from(["ab", "c", "\x85", "\x1c", "\u2028", "\u2029", "\n", " "]), min_size=1, max_size=5).map("".join))
        seg = st.builds(lambda t, s: {"t": t, "s": s}, text, st.one_of(st.none(), GS.style_spec(), GS.style_spec(), st.sampled_from(GS.PALETTE)))
        return st.builds(lambda segs, route: {"segs": segs, "route": route}, st.lists(seg, min_size=1, max_size=8), st.sampled_from(["raw", "text"]))

    def check(self, spec, ctx):
        from rich.console import Console
        from rich.segment import Segment
        from rich.text import Text
        from rich.ansi import AnsiDecoder
        from rich.color import Color

        f = io.StringIO()
        con = sut(Console, file=f, color_system="truecolor", force_terminal=True, legacy_windows=False, width=1000, _environ={})
        segs = [(s["t"], sut(GS.build_style, s["s"]) if s["s"] else None, s["s"]) for s in spec["segs"]]
        if spec["route"] == "raw":
            sut(con.print, C03.Raw([Segment(t, s) for t, s, _ in segs]), end="")
        else:
            sut(con.print, Text.assemble(*[(t, s) if s is not None else t for t, s, _ in segs], end=""), end="")
        out = f.getvalue()
        expected = []
        for t, _, sp in segs:
            if sp is None:
                stt = (frozenset(), SGR.DEFAULT, SGR.DEFAULT, None)
            else:
                stt = (frozenset(k for k, v in sp["attrs"].items() if v),
                       C03.Stream.canon(Color.parse(sp["color"])) if sp["color"] else SGR.DEFAULT,
                       C03.Stream.canon(Color.parse(sp["bgcolor"])) if sp["bgcolor"] else SGR.DEFAULT,
                       sp["link"])
            for c in t:
                expected.append((c, stt))
        want_lines = [[]]
        for c, stt in expected:
            if c == "\n":
                want_lines.append([])
            else:
                want_lines[-1].append((c, stt))
        if want_lines and not want_lines[-1] and len(want_lines) > 1:
            want_lines.pop()  # splitlines() drops the empty line after a final newline
        if not out:
            want_lines = []
        lines = list(sut(lambda: list(AnsiDecoder().decode(out))))
        if len(lines) != len(want_lines):
            ctx.violation("decode", "C19/decode/line-count", "decoded %d lines, printed %d; stream %r" % (len(lines), len(want_lines), out[:300]))
            return
        con2 = Console(file=io.StringIO(), width=1000, _environ={})
        runs_on_a_line = 0
        for li, (line, want) in enumerate(zip(lines, want_lines)):
            got = []
            for seg in line.render(con2):
                for c in seg.text:
                    got.append((c, canon_style(seg.style)))
            if [c for c, _ in got] != [c for c, _ in want]:
                ctx.violation("decode", "C19/decode/characters", "line %d decodes to %r, printed %r" % (li, "".join(c for c, _ in got), "".join(c for c, _ in want)))
                return
            for (c, g), (_, w) in zip(got, want):
                if g != w:
                    which = [n for n, x, y in zip(("attrs", "fg", "bg", "link"), g, w) if x != y]
                    ctx.violation("decode", "C19/decode/" + "+".join(which), "line %d character %r decodes to %r, printed with %r; stream %r" % (li, c, g, w, out[:300]))
                    return
            runs_on_a_line = max(runs_on_a_line, len({w for _, w in want}))
        if runs_on_a_line >= 2:
            ctx.nontrivial = True


# ------------------------------------------------------------------------------------------------ layered styles, printed after one another
def definition_of(sp, order=0):
    """A style definition string ("not bold italic red on blue link URL") that says what the spec says; order 1 spells the same parts the other way round."""
    words = []
    for k, v in sorted(sp["attrs"].items()):
        words.append(k if v else "not " + k)
    if sp["color"]:
        words.append(sp["color"])
    if sp["bgcolor"]:
        words.append("on " + sp["bgcolor"])
    if sp["link"]:
        words.append("link " + sp["link"])
    if order:
        words.reverse()
    return " ".join(words) or "none"


def resolve_pool(pool):
    """The style specs of a generated pool. An entry with a 'tweak' is written *against* an earlier entry: it flips some of the attributes that entry sets
    (switches them off where they are on and the other way round), with or without colours of its own, with or without a link."""
    out = []
    for i, e in enumerate(pool):
        sp = e["spec"]
        tw = e.get("tweak")
        if tw and i:
            target = out[tw["of"] % i]
            names = sorted(target["attrs"])
            attrs = {names[k % len(names)]: not target["attrs"][names[k % len(names)]] for k in tw["flip"]} if names else dict(sp["attrs"])
            sp = {"attrs": attrs, "color": sp["color"] if tw["colour"] else None, "bgcolor": sp["bgcolor"] if tw["colour"] else None, "link": tw["link"] if tw["link"] is not None else sp["link"]}
        out.append(sp)
    return out


class Layers(Part):
    name = "layers"
    rule = ("a pool of 2-4 styles (C03 style space; an entry may be a 'tweak' of an earlier one: some of that entry's attributes flipped - on->off, off->on -, with or "
            "without own colours, with or without a link), each used either as one Style object shared by everything in the case or as a style definition string "
            "(resolved by the console through the cached Style.parse); then a history of 2-5 steps, the first one a print: print a Text (1-24 characters, ESC-free, newlines; base style, "
            "0-4 overlapping spans in pool styles, optionally print(style=outer)) on the case's truecolor console or, as history only, on its 256 / standard console; "
            "print an earlier Text object again; derive a new pool style from styles that may have been written already (copy, update_link(url|None), without_color, a + b, "
            "Style.combine / Style.chain of 2-3). Every truecolor print is decoded by a fresh AnsiDecoder: same characters per line and per character the "
            "attributes-on, fg, bg, link of the right-biased fold of the styles covering it (outer, base, spans in the order they were added), whatever was printed "
            "or derived before; non-trivial = a compared print after the first step has a character covered by >= 2 styles of which one was used in an earlier print")
    budget = {"quick": (8, 900), "thorough": (16, 10000)}

    def strategy(self, tier):
        tweak = st.builds(lambda of, flip, colour, link: {"of": of, "flip": flip, "colour": colour, "link": link}, st.integers(0, 3), st.lists(st.integers(0, 12), min_size=1, max_size=3),
                          st.booleans(), st.one_of(st.none(), st.sampled_from(GS.LINKS)))
        entry = st.builds(lambda sp, form, tw, order: {"spec": sp, "form": form, "tweak": tw, "order": order},
                          st.one_of(GS.style_spec(max_attrs=4), GS.style_spec(), st.sampled_from(GS.PALETTE)), st.sampled_from(["obj", "obj", "def"]), st.one_of(st.none(), tweak), st.integers(0, 1))
        idx = st.integers(0, 7)
        # the C03 segment alphabet, at least one character
        text = st.text(st.one_of(st.sampled_from(GC.NARROW_ASCII + GC.PUNCT), st.sampled_from(GC.NARROW_ASCII), st.just(" "), st.sampled_from(GC.WIDE), st.sampled_from(GC.ZERO), st.just("\n"), st.sampled_from(GC.LATIN1)),
                       min_size=1, max_size=24)
        pr = st.builds(lambda t, base, spans, outer, system: {"op": "print", "text": t, "base": base, "spans": spans, "outer": outer, "system": system},
                       text, st.one_of(st.none(), idx, idx, idx), st.lists(st.tuples(st.integers(0, 24), st.integers(0, 24), idx).map(list), max_size=4),
                       st.one_of(st.none(), st.none(), st.none(), idx), st.sampled_from(["truecolor", "truecolor", "truecolor", "truecolor", "256", "standard"]))
        derive = st.builds(lambda how, of, link: {"op": "derive", "how": how, "of": of, "link": link}, st.sampled_from(["copy", "update_link", "without_color", "add", "add", "combine", "chain"]),
                           st.lists(idx, min_size=3, max_size=3), st.one_of(st.none(), st.sampled_from(GS.LINKS)))
        again = st.builds(lambda k: {"op": "again", "k": k}, st.integers(0, 4))
        return st.builds(lambda pool, steps: {"pool": pool, "steps": steps}, st.lists(entry, min_size=2, max_size=4), st.builds(lambda first, rest: [first] + rest, pr, st.lists(st.one_of(pr, pr, pr, derive, again), min_size=1, max_size=4)))

    def check(self, spec, ctx):
        from rich.console import Console
        from rich.style import Style
        from rich.text import Text
        from rich.ansi import AnsiDecoder
        from rich.color import Color

        specs = resolve_pool(spec["pool"])
        # what the application holds for each pool style: a Style object (made once) or a definition string
        held = []
        for e, sp in zip(spec["pool"], specs):
            held.append(sut(GS.build_style, sp) if e["form"] == "obj" else definition_of(sp, e["order"]))

        def as_object(h):
            return h if not isinstance(h, str) else sut(Style.parse, h)

        files, consoles = {}, {}

        def console_of(system):
            if system not in consoles:
                files[system] = io.StringIO()
                consoles[system] = sut(Console, file=files[system], color_system=system, force_terminal=True, legacy_windows=False, width=1000, _environ={})
            return consoles[system], files[system]

        con2 = Console(file=io.StringIO(), width=1000, _environ={})
        printed = []      # (Text object, outer index, per character list of covering pool indices, plain)
        used = set()      # pool indices that took part in an earlier print
        later_layered = False

        def state_of(layers):
            m = GS.merge(*[specs[i] for i in layers])
            return (frozenset(k for k, v in m["attrs"].items() if v),
                    C03.Stream.canon(Color.parse(m["color"])) if m["color"] else SGR.DEFAULT,
                    C03.Stream.canon(Color.parse(m["bgcolor"])) if m["bgcolor"] else SGR.DEFAULT,
                    m["link"])

        def emit(si, text_obj, outer, cover, plain, system):
            """print on the console of `system`; compare when it is the truecolor one. Returns False after a violation."""
            con, f = console_of(system)
            before = len(f.getvalue())
            if outer is None:
                sut(con.print, text_obj, end="")
            else:
                sut(con.print, text_obj, style=held[outer], end="")
            out = f.getvalue()[before:]
            if system != "truecolor":
                ctx.cls("history-on-" + system)
                return True
            want_lines = [[]]
            for c, layers in zip(plain, cover):
                if c == "\n":
                    want_lines.append([])
                else:
                    want_lines[-1].append((c, state_of(layers), layers))
            if not want_lines[-1] and len(want_lines) > 1:
                want_lines.pop()
            if not out:
                want_lines = []
            lines = list(sut(lambda: list(AnsiDecoder().decode(out))))
            if len(lines) != len(want_lines):
                ctx.violation("decode", "C19/layers/line-count", "step %d: decoded %d lines, printed %d; stream %r" % (si, len(lines), len(want_lines), out[:300]))
                return False
            for li, (line, want) in enumerate(zip(lines, want_lines)):
                got = []
                for seg in line.render(con2):
                    for c in seg.text:
                        got.append((c, canon_style(seg.style)))
                if [c for c, _ in got] != [x[0] for x in want]:
                    ctx.violation("decode", "C19/layers/characters", "step %d line %d decodes to %r, printed %r" % (si, li, "".join(c for c, _ in got), "".join(x[0] for x in want)))
                    return False
                for (c, g), (_, w, layers) in zip(got, want):
                    if g != w:
                        which = [n for n, x, y in zip(("attrs", "fg", "bg", "link"), g, w) if x != y]
                        ctx.violation("decode", "C19/layers/" + "+".join(which), "step %d line %d character %r decodes to %r, the styles over it (%s) fold to %r; stream %r"
                                      % (si, li, c, g, " < ".join("'%s'" % definition_of(specs[i]) for i in layers), w, out[:300]))
                        return False
            return True

        for si, step in enumerate(spec["steps"]):
            n = len(held)
            if step["op"] == "derive":
                src = [k % n for k in step["of"]]
                how = step["how"]
                a = as_object(held[src[0]])
                if how == "copy":
                    new, nsp = sut(a.copy), dict(specs[src[0]])
                elif how == "update_link":
                    new, nsp = sut(a.update_link, step["link"]), dict(specs[src[0]], link=step["link"])
                elif how == "without_color":
                    new, nsp = sut(lambda: a.without_color), dict(specs[src[0]], color=None, bgcolor=None)
                elif how == "add":
                    new, nsp = sut(lambda: a + as_object(held[src[1]])), GS.merge(specs[src[0]], specs[src[1]])
                else:
                    members = src if step["link"] is None else src[:2]
                    objs = [as_object(held[k]) for k in members]
                    new = sut(Style.combine, objs) if how == "combine" else sut(Style.chain, *objs)
                    nsp = GS.merge(*[specs[k] for k in members])
                held.append(new)
                specs.append(nsp)
                ctx.cls("derived-" + how)
                continue
            if step["op"] == "again":
                if not printed:
                    continue
                text_obj, outer, cover, plain = printed[step["k"] % len(printed)]
                ctx.cls("same-text-printed-again")
                if si and any(len(l) >= 2 for l, c in zip(cover, plain) if c != "\n"):
                    later_layered = True
                if not emit(si, text_obj, outer, cover, plain, "truecolor"):
                    return
                continue
            plain = step["text"]
            base = None if step["base"] is None else step["base"] % n
            outer = None if step["outer"] is None else step["outer"] % n
            text_obj = sut(Text, plain, style=held[base], end="") if base is not None else sut(Text, plain, end="")
            cover = [([outer] if outer is not None else []) + ([base] if base is not None else []) for _ in plain]
            for a, b, k in step["spans"]:
                lo, hi = sorted((a % (len(plain) + 1), b % (len(plain) + 1)))
                if lo == hi:
                    continue
                sut(text_obj.stylize, held[k % n], lo, hi)
                for p in range(lo, hi):
                    cover[p].append(k % n)
            if si and step["system"] == "truecolor" and any(len(l) >= 2 and used & set(l) for l, c in zip(cover, plain) if c != "\n"):
                later_layered = True
            if not emit(si, text_obj, outer, cover, plain, step["system"]):
                return
            if step["system"] == "truecolor":
                printed.append((text_obj, outer, cover, plain))
            for l, c in zip(cover, plain):
                used.update(l)
        if later_layered:
            ctx.nontrivial = True


# ------------------------------------------------------------------------------------------------ FileProxy
def encode_run(text, sp, variant):
    """Independent encoder: SGR / OSC-8 coded run. variant picks among equivalent spellings."""
    if sp is None:
        return "", text, ""
    params = []
    for k, v in sorted(sp["attrs"].items()):
        if v:
            params.append(str(GS.SGR_OF[k]))
    from rich.color import Color  # only to read r,g,b / index of a colour *specification*

    for key, base in (("color", 30), ("bgcolor", 40)):
        if sp[key]:
            c = Color.parse(sp[key])
            t = c.type.name
            if t == "DEFAULT":
                params.append(str(base + 9))
            elif t == "STANDARD":
                n = c.number
                if variant % 2:
                    params.append("%d;5;%d" % (base + 8, n))
                else:
                    params.append(str(base + n if n < 8 else base + 60 + n - 8))
            elif t == "EIGHT_BIT":
                params.append("%d;5;%d" % (base + 8, c.number))
            else:
                params.append("%d;2;%d;%d;%d" % ((base + 8,) + tuple(c.triplet)))
    link_open = "\x1b]8;;%s\x1b\\" % sp["link"] if sp["link"] else ""
    link_close = "\x1b]8;;\x1b\\" if sp["link"] else ""
    sgr = ""
    if params:
        sgr = "\x1b[" + ";".join(params) + "m" if variant % 3 == 0 else "".join("\x1b[%sm" % p for p in params)
    reset = ("\x1b[0m" if variant % 2 else "\x1b[m") if params else ""
    # how other programs nest the two kinds of sequence: styles switched on inside an open link, links closed before or after the reset, or a style that is
    # left on after the link ends (the following text keeps it until something resets it)
    if variant <= 5:
        return link_open + sgr, text, reset + link_close
    if variant == 6:
        return link_open + sgr, text, link_close + reset
    if variant == 7:
        return sgr + link_open, text, link_close + reset
    if variant == 8:
        return link_open + sgr, text, link_close          # the style stays on
    return sgr + link_open, text, reset                    # variant 9: the link stays open


def run_text():
    alpha = st.one_of(st.sampled_from(GC.NARROW_ASCII), st.sampled_from(GC.NARROW_ASCII + GC.PUNCT), st.just(" "), st.sampled_from(GC.WIDE), st.sampled_from(["[", "]", "[b]", "[/x]", "[red]", ":smile:", ":", "1.5", "'q'", "True", "http://u.example"]))
    return st.lists(alpha, min_size=0, max_size=8).map("".join)


class Proxy(Part):
    name = "fileproxy"
    rule = ("streams of 1-6 lines, each 0-4 runs (text may contain [tag]-shaped text, :emoji: codes, numbers, quotes; style = SGR/OSC-8 coded by an "
            "independent encoder or plain), the last line possibly unterminated; cut into write() calls at generated offsets (inside lines, inside escape "
            "sequences, empty writes, many newlines) interleaved with flush() at generated character boundaries; through FileProxy directly and through "
            "sys.stdout under a Live, with write() or writelines(), optionally every other call from a second thread (sequentially); the console output must decode to the same (char, attrs, fg, bg, link) sequence as the raw stream with one newline "
            "added per non-empty flush; on a console created with or without soft_wrap (over-long lines then written whole); optionally one line of 201..20001 characters (folded by the console into full-width pieces; lengths around 1024/4096/8192/16384), also "
            "cut and flushed in the middle; non-trivial = a cut inside an escape sequence or a flush with a non-empty partial line")
    budget = {"quick": (8, 1200), "thorough": (16, 10000)}

    def strategy(self, tier):
        run = st.builds(lambda t, s, v: {"t": t, "s": s, "v": v}, run_text(), st.one_of(st.none(), st.none(), GS.style_spec(max_attrs=3), st.sampled_from(GS.PALETTE)), st.one_of(st.integers(0, 5), st.integers(0, 9)))
        line = st.lists(run, min_size=0, max_size=4)
        # a very long line (no spaces, one run): longer than the console is wide, around the sizes at which buffers usually change behaviour
        long_len = st.one_of(st.integers(201, 420), st.sampled_from([1023, 1024, 1025, 4095, 4096, 4097, 8191, 8192, 8193, 8200, 16384, 16385, 20001]), st.integers(421, 9000))
        long = st.one_of(st.none(), st.none(), st.none(), st.builds(lambda i, n, sp, cut, fl: {"line": i, "len": n, "style": sp, "cut": cut, "flush": fl}, st.integers(0, 5), long_len, st.one_of(st.none(), st.sampled_from(GS.PALETTE)),
                                                                    st.one_of(st.none(), st.floats(0, 1), st.floats(0.9, 1)), st.booleans()))
        return st.builds(
            lambda lines, last_nl, cuts, flushes, route, lg, wf, how, tb, soft: {"lines": lines, "final_newline": last_nl, "cuts": cuts, "flushes": flushes, "route": route, "long": lg if not tb else None, "write_fault": wf, "how": how, "tabbed": tb,
                                                                                 "soft": soft},
            st.lists(line, min_size=1, max_size=6), st.booleans(),
            st.lists(st.integers(0, 400), max_size=10), st.lists(st.integers(0, 400), max_size=4), st.sampled_from(["proxy", "proxy", "live", "live-stderr"]), long, st.one_of(st.none(), st.none(), st.integers(0, 6)),
            # how the stream's methods are called: plainly; every other call from a short-lived second thread (one after the other, never at the same time); writelines() for every other chunk
            st.sampled_from(["plain", "plain", "two-threads", "writelines", "two-threads+writelines"]),
            # one line of tab-separated fields on a console a little wider than the line is before its tabs are expanded (so it has to be wrapped after expansion)
            st.one_of(st.none(), st.none(), st.none(), st.builds(lambda i, fields, d: {"line": i, "fields": fields, "d": d}, st.integers(0, 5),
                                                                  st.lists(st.sampled_from(["id", "name", "status", "elapsed", "ok", "x", "12345", "a-long-field-name"]), min_size=2, max_size=8), st.integers(0, 12))),
            # the console was created with soft_wrap=True: lines wider than the console are written whole (the terminal wraps them)
            st.sampled_from([False, False, False, True]),
        )

    def check(self, spec, ctx):
        from rich.console import Console
        from rich.file_proxy import FileProxy
        from rich.live import Live
        from rich.console import RenderGroup
        from ..oracles import cells as OC

        # build the raw stream and remember which offsets are inside an escape sequence
        raw = ""
        safe = [0]  # offsets where a flush may fall (between characters, outside escape sequences)
        CW = 200
        tb = spec.get("tabbed")
        if tb:
            CW = max(12, len("\t".join(tb["fields"])) - tb["fields"].count("") + tb["d"] - ("\t".join(tb["fields"])).count("\t"))
        lg = spec.get("long")
        long_cut = None
        for li, line in enumerate(spec["lines"]):
            width = 0
            if lg and li == lg["line"] % len(spec["lines"]):
                line = [{"t": ("abcdefghij" * (lg["len"] // 10 + 1))[:lg["len"]], "s": lg["style"], "v": 0, "long": True}]
            if tb and li == tb["line"] % len(spec["lines"]):
                line = [{"t": "\t".join(tb["fields"]), "s": None, "v": 0}]
            for r in line:
                if r.get("long"):
                    if lg["cut"] is not None:
                        long_cut = len(raw) + int(lg["cut"] * lg["len"])   # a write boundary and a flush inside the long line
                elif width + OC.width(r["t"]) > 150:
                    continue
                width += OC.width(r["t"])
                pre, txt, post = encode_run(r["t"], r["s"], r["v"])
                raw += pre
                for k in range(len(txt) + 1):
                    safe.append(len(raw) + k)
                raw += txt + post
                safe.append(len(raw))
            if li < len(spec["lines"]) - 1 or spec["final_newline"]:
                raw += "\n"
                safe.append(len(raw))
        safe = sorted(set(s for s in safe if s <= len(raw)))
        cuts = sorted(set(min(c, len(raw)) for c in spec["cuts"]))
        flush_at = sorted(set(safe[f % len(safe)] for f in spec["flushes"]))
        if long_cut is not None:
            long_cut = min([x for x in safe if x >= long_cut] or [len(raw)])
            cuts = sorted(set(cuts) | {long_cut})
            if lg.get("flush", True):
                flush_at = sorted(set(flush_at) | {long_cut})
        points = sorted(set(cuts) | set(flush_at) | {len(raw)})
        class FaultyFile(io.StringIO):
            """The console's file refuses one write (as a terminal with a narrower encoding does for a character it cannot encode); the caller carries on."""
            fail_next = False
            failed = 0

            def write(self, t):
                if self.fail_next:
                    self.fail_next = False
                    self.failed += 1
                    raise UnicodeEncodeError("ascii", t[:1] or "x", 0, 1, "injected: ordinal not in range(128)")
                return super().write(t)

        f = FaultyFile()
        # a write fault is injected only into plain streams written straight through a FileProxy (a lost line then carries no state of the decoder away with it)
        fault_chunk = spec.get("write_fault") if (spec["route"] == "proxy" and not lg and all(r["s"] is None for line in spec["lines"] for r in line)) else None
        soft = bool(spec.get("soft"))
        con = sut(Console, file=f, color_system="truecolor", force_terminal=True, legacy_windows=False, width=CW, _environ={}, **({"soft_wrap": True} if soft else {}))
        sink = io.StringIO()
        expected_raw = ""  # raw stream with the newline each non-empty flush adds
        pending = ""
        inside_escape_cut = False
        nonempty_flush = False

        def drive(write, flush):
            nonlocal expected_raw, pending, inside_escape_cut, nonempty_flush
            pos = 0
            for pi, p in enumerate(points):
                chunk = raw[pos:p]
                completes = "\n" in chunk
                if fault_chunk is not None and completes and pi >= fault_chunk and not f.failed:
                    # this write() completes at least one line: the console's write of those lines fails; they are lost, nothing else is
                    f.fail_next = True
                    try:
                        write(chunk)
                    except UnicodeEncodeError:
                        pass
                    except Exception as e:  # noqa
                        raise SutError(e)
                    if f.fail_next:
                        f.fail_next = False     # nothing was written for this chunk after all
                    data = pending + chunk
                    lost, pending = data.rsplit("\n", 1)
                    if not f.failed:
                        expected_raw += lost + "\n"
                    ctx.cls("console-write-failed-once")
                    pos = p
                    if p in flush_at:
                        sut(flush)
                        if pending:
                            expected_raw += pending + "\n"
                            nonempty_flush = True
                            pending = ""
                    continue
                sut(write, chunk)
                if p in cuts and p not in safe:
                    inside_escape_cut = True
                if fault_chunk is not None:
                    data = pending + chunk
                    if "\n" in data:
                        done, pending = data.rsplit("\n", 1)
                        expected_raw += done + "\n"
                    else:
                        pending = data
                    pos = p
                    if p in flush_at:
                        sut(flush)
                        if pending:
                            expected_raw += pending + "\n"
                            nonempty_flush = True
                            pending = ""
                    continue
                expected_raw += chunk
                pending = (pending + chunk).rsplit("\n", 1)[-1] if "\n" in chunk else pending + chunk
                pos = p
                if p in flush_at:
                    sut(flush)
                    if pending:
                        expected_raw += "\n"
                        nonempty_flush = True
                        pending = ""
            sut(flush)
            if pending:
                expected_raw += (pending if fault_chunk is not None else "") + "\n"
                pending = ""
            sut(flush)

        how = spec.get("how", "plain")
        calls = [0]

        def adapt(stream_of):
            """stream_of() -> the stream object to use now. Returns (write, flush) callables that follow `how`."""
            import threading

            def call(fn, *a):
                calls[0] += 1
                if "two-threads" in how and calls[0] % 2 == 0:
                    box = {}

                    def run():
                        try:
                            box["r"] = fn(*a)
                        except BaseException as e:  # noqa
                            box["e"] = e

                    th = threading.Thread(target=run)
                    th.start()
                    th.join()
                    if "e" in box:
                        raise box["e"]
                    return box.get("r")
                return fn(*a)

            def write(text):
                stream = stream_of()
                if "writelines" in how and calls[0] % 3 == 1:
                    return call(stream.writelines, [text])
                return call(stream.write, text)

            return write, (lambda: call(stream_of().flush))

        if how != "plain":
            ctx.cls("calls-" + how)
        if spec["route"] == "proxy":
            proxy = sut(FileProxy, con, sink)
            drive(*adapt(lambda: proxy))
        else:
            old_out, old_err = sys.stdout, sys.stderr
            try:
                with Live(RenderGroup(), console=con, auto_refresh=False, redirect_stdout=True, redirect_stderr=True, transient=False):
                    if spec["route"] == "live":
                        drive(*adapt(lambda: sys.stdout))
                    else:
                        drive(*adapt(lambda: sys.stderr))
            finally:
                sys.stdout, sys.stderr = old_out, old_err
        out = f.getvalue()
        try:
            want, _ = SGR.interpret(expected_raw)
        except SGR.BadStream as e:
            raise AssertionError("harness produced a bad stream: %s %r" % (e, expected_raw))
        try:
            got, final = SGR.interpret(out)
        except SGR.BadStream as e:
            ctx.violation("stream", "C19/proxy/malformed", "console output is not a well-formed stream: %s; %r" % (e, out[:300]))
            return
        want = [e for e in want if e[0] == "ch"]
        if spec["route"].startswith("live"):
            want.append(("ch", "\n", frozenset(), SGR.DEFAULT, SGR.DEFAULT, None))  # Live.stop() ends the display with its own new line
        got = [e for e in got if e[0] == "ch"]
        gs = "".join(e[1] for e in got)
        ws = "".join(e[1] for e in want)
        if lg:
            # a line without spaces that is wider than the console is folded into full-width pieces; the other lines are narrower than the console
            if not soft:
                ws = "\n".join("\n".join(l[k:k + CW] for k in range(0, len(l), CW)) if len(l) > CW and l.isascii() and " " not in l else l for l in ws.split("\n"))
            got = [e for e in got if e[1] != "\n"]
            want = [e for e in want if e[1] != "\n"]
            ctx.cls("long-line")
            if lg["len"] > 8192:
                ctx.cls("line-longer-than-8192")
        if tb:
            # tabs are expanded and over-long lines wrapped by the console: every character that is not white space must still be there, in order, with its style
            got = [e for e in got if not e[1].isspace()]
            want = [e for e in want if not e[1].isspace()]
            gs = "".join(e[1] for e in got)
            ws = "".join(e[1] for e in want)
            ctx.cls("tab-separated-line")
        if gs != ws:
            if spec["route"] == "proxy" or True:
                sig = "C19/proxy/flush-text" if nonempty_flush and gs.replace("\n", "") != ws.replace("\n", "") else ("C19/proxy/lines" if gs.replace("\n", "") == ws.replace("\n", "") else "C19/proxy/text")
            ctx.violation("lines", sig, "written %r (chunks at %r, flushes at %r) came out as %r" % (expected_raw[:300], cuts, flush_at, gs[:300]))
            return
        for g, w in zip(got, want):
            if g[1] != "\n" and tuple(g[2:]) != tuple(w[2:]):
                which = [n for n, x, y in zip(("attrs", "fg", "bg", "link"), g[2:], w[2:]) if x != y]
                ctx.violation("styling", "C19/proxy/style-" + "+".join(which), "character %r written with %r came out with %r; raw %r out %r" % (g[1], w[2:], g[2:], expected_raw[:300], out[:300]))
                return
        if sink.getvalue():
            ctx.violation("lines", "C19/proxy/bypassed", "text reached the proxied file directly: %r" % sink.getvalue()[:100])
            return
        if inside_escape_cut or nonempty_flush:
            ctx.nontrivial = True
        if inside_escape_cut:
            ctx.cls("cut-inside-escape")
        if nonempty_flush:
            ctx.cls("flush-partial-line")
        ctx.cls("route-" + spec["route"])
        if soft:
            ctx.cls("soft-wrap-console")


PARTS = [Decode(), Layers(), Proxy()]
