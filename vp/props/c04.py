"""C04 - markup styles exactly the tagged regions, and escape() neutralises any text."""
import itertools
import time
from hypothesis import strategies as st
from ..oracles import sgr as SGRmod

from ..core import Part, sut, Ctx, SutError
from ..gen import styles as GS
from ..oracles import textview as TV

PROP_ID = "C04"
LEVEL = "exploration"
RULE = "exhaustive strings over an 11-symbol alphabet (escape) + Hypothesis strings + Hypothesis tag-event documents against a reference tag-stack interpreter (emoji replacement off, and on with emoji codes among the text)"
ASSUMPTIONS = [
    "escape round trip is judged with emoji=False (and emoji=True only for ':'-free strings): escape() is documented to neutralise markup, not emoji codes - DESIGN 7.3",
    "embedded form: prefix does not end in a backslash; s does not end in a backslash and every '[' in s is followed by a later ']' in s (the statement's side condition) - DESIGN 7.4",
    "characters Text strips (\\x08 \\x0b \\x0c \\r) are not in the alphabets - DESIGN 7.2",
    "tag names that are not styles (e.g. 'foo') style nothing",
    "emoji codes are replaced stretch by stretch (text between tags); documents where a pair of colons straddling a tag would make whole-text replacement differ are judged with emoji=False only - DESIGN 7.3",
]

ALPHA = ["[", "]", "\\", "/", "=", "#", "a", "1", " ", "\n", ":"]


def side_ok(s):
    if s.endswith("\\"):
        return False
    lb = s.rfind("[")
    return lb == -1 or s.rfind("]") > lb


def plain_and_styles(text):
    return text.plain, TV.char_styles(text)


NULLV = ((), None, None, None)
BOLDV = ((("bold", True),), None, None, None)
# (prefix markup, suffix markup, prefix plain, suffix plain, expected style of the embedded text)
CONTEXTS = [("[bold]x", "y[/bold]", "x", "y", BOLDV), ("[bold]", "", "", "", BOLDV), ("q ", "[bold]z[/]", "q ", "z", NULLV)]


def check_escape(ctx, s, emoji_too=True):
    from rich.markup import render, escape

    esc = sut(escape, s)
    t = sut(render, esc, emoji=False)
    if t.plain != s or t.spans:
        ctx.violation("escape", "C04/escape/standalone", "render(escape(%r)=%r) -> plain %r spans %r" % (s, esc, t.plain, t.spans))
        return False
    if emoji_too and ":" not in s:
        t = sut(render, esc)
        if t.plain != s or t.spans:
            ctx.violation("escape", "C04/escape/standalone-emoji", "render(escape(%r)) with emoji -> %r %r" % (s, t.plain, t.spans))
            return False
    return True


def check_embedded(ctx, s, pre, suf, pre_plain, suf_plain, want_view):
    from rich.markup import render, escape

    doc = pre + sut(escape, s) + suf
    try:
        t = sut(render, doc, emoji=False)
    except SutError as e:
        ctx.violation("escape", "C04/escape/embedded-error", "render(%r) raised %r" % (doc, e.exc))
        return False
    want_plain = pre_plain + s + suf_plain
    if t.plain != want_plain:
        ctx.violation("escape", "C04/escape/embedded-plain", "render(%r).plain = %r, expected %r" % (doc, t.plain, want_plain))
        return False
    cs = TV.char_styles(t)
    mid = cs[len(pre_plain):len(pre_plain) + len(s)]
    for ch, sv in mid:
        if sv != want_view:
            ctx.violation("escape", "C04/escape/embedded-style", "in %r the escaped text carries %r, expected %r" % (doc, sv, want_view))
            return False
    return True


def TM_strip(t):
    """Text removes BS, VT, FF and CR from what it is given."""
    return "".join(c for c in t if c not in "\x07\x08\x0b\x0c\r")


class EscapeExhaustive(Part):
    name = "escape-exhaustive"
    custom = True
    exhaustive = True
    rule = ("every string over [ ] \\ / = # a 1 space newline colon up to length 6 (quick) / 7 (thorough): render(escape(s)) == s with no spans; "
            "strings meeting the side condition are also embedded in 3 fixed markup contexts (up to length 5 / 6); "
            "non-trivial (distinct by construction) = s contains a tag-shaped substring or a backslash directly before '['")
    budget = {"quick": (16, 1), "thorough": (16, 1)}

    def run_shard(self, tier, shard, nshards, seed, stats, deadline, known):
        import re

        L = 6 if tier == "quick" else 7
        LE = L - 1
        tagish = re.compile(r"\[[a-z#/].*?\]")
        ctx = Ctx()
        n = 0
        nt = 0
        prefixes = [p for i, p in enumerate(itertools.product(ALPHA, repeat=2)) if i % nshards == shard]
        short = [""] + ALPHA if shard == 0 else []

        failing = []

        def one(s):
            nonlocal n, nt
            n += 1
            nv = len(ctx.violations)
            if not check_escape(ctx, s, emoji_too=False):
                failing.append(s)
                return False
            r = one2(s)
            if not r:
                failing.append(s)
            return r

        def one2(s):
            nonlocal n, nt
            if tagish.search(s) or "\\[" in s:
                nt += 1
            if len(s) <= LE and side_ok(s):
                for pre, suf, pp, sp, view in CONTEXTS:
                    n += 1
                    if not check_embedded(ctx, s, pre, suf, pp, sp, view):
                        return False
            return True

        ok = True
        for s in short:
            ok = ok and one(s)
        for p in prefixes:
            if not ok:
                break
            if time.time() > deadline:
                stats.capped = True
                break
            base = "".join(p)
            for l in range(0, L - 1):
                for rest in itertools.product(ALPHA, repeat=l):
                    if not one(base + "".join(rest)):
                        ok = False
                        break
                if not ok:
                    break
        stats.evaluations += n
        stats.nontrivial_count_distinct += nt
        if not stats.capped:
            stats.done += 1
        stats.samples.append((1, {"shard": shard, "strings_up_to": L, "example": "".join(prefixes[0]) + "[a]\\" if prefixes else ""}, "range"))
        for v in ctx.violations:
            stats.found.setdefault(v.sig, {"spec": {"s": failing[0] if failing else None}, "clause": v.clause, "detail": v.detail, "size": 1, "part": self.name})

    def replay(self, spec, ctx):
        s = spec.get("s")
        if s is None:
            return
        if check_escape(ctx, s):
            if side_ok(s):
                for pre, suf, pp, sp, view in CONTEXTS:
                    check_embedded(ctx, s, pre, suf, pp, sp, view)


class BracketAnyChar(Part):
    name = "bracket-any-character"
    custom = True
    exhaustive = True
    rule = ("for every code point c of the Basic Multilingual Plane (surrogates aside) and every 64th astral one: the strings '[' c 'x]', '\\[' c 'x]', 'a[' c ']b', '[/' c ']' and "
            "'[x' c 'y]' go through escape() alone and - when the side condition holds - embedded in 3 markup contexts: the parser and escape() must agree on what a tag is "
            "whatever follows the bracket; non-trivial = c is not a letter, digit or one of the ASCII characters of the small alphabet")
    budget = {"quick": (16, 1), "thorough": (16, 1)}

    def run_shard(self, tier, shard, nshards, seed, stats, deadline, known):
        ctx = Ctx()
        n = nt = 0
        cps = [cp for cp in range(0x20, 0x10000) if not 0xD800 <= cp <= 0xDFFF] + list(range(0x10000, 0x110000, 64 if tier == "quick" else 8))
        bad = None
        for i, cp in enumerate(cps):
            if i % nshards != shard:
                continue
            c = chr(cp)
            for s in ("[" + c + "x]", "\\[" + c + "x]", "a[" + c + "]b", "[/" + c + "]", "[x" + c + "y]"):
                n += 1
                ok = check_escape(ctx, s, emoji_too=False)
                if ok and side_ok(s):
                    for pre, suf, pp, sp, view in CONTEXTS:
                        n += 1
                        ok = ok and check_embedded(ctx, s, pre, suf, pp, sp, view)
                if not ok:
                    bad = s
                    break
            if bad:
                break
            if not (c.isalnum() or c in ALPHA):
                nt += 1
            if n % 5000 < 8 and time.time() > deadline:
                stats.capped = True
                break
        stats.evaluations += n
        stats.nontrivial_count_distinct += nt
        if not stats.capped:
            stats.done += 1
        stats.samples.append((1, {"shard": shard, "code_points": len(cps) // nshards, "example": "[@x]"}, "range"))
        for v in ctx.violations:
            stats.found.setdefault(v.sig, {"spec": {"s": bad}, "clause": v.clause, "detail": v.detail, "size": 1, "part": self.name})

    def replay(self, spec, ctx):
        EscapeExhaustive().replay(spec, ctx)


# ------------------------------------------------------------------------------------------------ tag documents
# tag text -> (normalised key for closing, closing spellings, style spec or None)
def _sp(attrs=None, color=None, bgcolor=None, link=None):
    return {"attrs": attrs or {}, "color": color, "bgcolor": bgcolor, "link": link}


TAGS = {
    "bold": ("K_bold", ["bold", "b"], _sp({"bold": True})),
    "b": ("K_bold", ["b", "bold"], _sp({"bold": True})),
    "italic": ("K_italic", ["italic", "i"], _sp({"italic": True})),
    "red": ("K_red", ["red"], _sp(color="red")),
    "blue": ("K_blue", ["blue"], _sp(color="blue")),
    "green": ("K_green", ["green"], _sp(color="green")),
    "on yellow": ("K_ony", ["on yellow"], _sp(bgcolor="yellow")),
    "bold red": ("K_boldred", ["bold red", "red bold"], _sp({"bold": True}, color="red")),
    "red bold": ("K_boldred", ["red bold", "bold red"], _sp({"bold": True}, color="red")),
    "not bold": ("K_notbold", ["not bold"], _sp({"bold": False})),
    "#00ff00": ("K_hex", ["#00ff00"], _sp(color="#00ff00")),
    # a closing tag may repeat a parameter (XML habit): it closes by name, whatever the parameter says
    "link=https://a.example/x": ("K_link", ["link", "link=https://a.example/x", "link=zzz"], _sp(link="https://a.example/x")),
    "link=https://b.example": ("K_link", ["link", "link=https://a.example/x", "link=https://b.example"], _sp(link="https://b.example")),
    "link=https://c.example/s?q=1&p=2#top": ("K_link", ["link", "link=other"], _sp(link="https://c.example/s?q=1&p=2#top")),
    "foo": ("K_foo", ["foo"], None),
    "underline blue": ("K_ublue", ["underline blue", "blue underline", "u blue"], _sp({"underline": True}, color="blue")),
}
TAG_NAMES = sorted(TAGS)
LEAVES = ["x", "hello world", "a b", "\n", "line\nbreak", " ", "[1]", "a[b]c", "[red]", "[/]", "\\[x]", "[]", "]", "1,2", "漢字", "é", "a=b", "#", "[/red]", "[link=z]q", "cr\r\nlf", "bs\x08x", "ff\x0c", "\r"]
STRIPPED = "\x08\x0b\x0c\r"  # Text drops these; spans must still land on the characters that remain


def leaf_strategy():
    free = st.text(st.sampled_from(list("abcxyz012 ,.-_()\n") + ["漢", "😀", "é"]), min_size=1, max_size=8)
    return st.one_of(st.sampled_from(LEAVES), free)


def event_strategy():
    return st.one_of(
        st.tuples(st.just("open"), st.sampled_from(TAG_NAMES)),
        st.tuples(st.just("open"), st.sampled_from(TAG_NAMES)),
        st.tuples(st.just("close"), st.sampled_from(TAG_NAMES), st.integers(0, 3)),
        st.tuples(st.just("close"), st.sampled_from(TAG_NAMES), st.integers(0, 3)),
        st.tuples(st.just("closeany")),
        st.tuples(st.just("text"), leaf_strategy()),
        st.tuples(st.just("text"), leaf_strategy()),
        st.tuples(st.just("text"), leaf_strategy()),
    )


def well_nested():
    """Mostly well-formed documents: closes chosen to match something open (exercises precedence, not only errors)."""

    @st.composite
    def doc(draw):
        n = draw(st.integers(1, 14))
        evs = []
        stack = []
        for _ in range(n):
            k = draw(st.integers(0, 9))
            if k <= 2:
                t = draw(st.sampled_from(TAG_NAMES))
                evs.append(["open", t])
                stack.append(t)
            elif k <= 4 and stack:
                i = draw(st.integers(0, len(stack) - 1))
                t = stack[i if draw(st.booleans()) else -1]
                # an explicit close removes the most recent open tag that has the same normalised name
                key = TAGS[t][0]
                for j in range(len(stack) - 1, -1, -1):
                    if TAGS[stack[j]][0] == key:
                        del stack[j]
                        break
                evs.append(["close", t, draw(st.integers(0, 3))])
            elif k == 5 and stack:
                stack.pop()
                evs.append(["closeany"])
            else:
                evs.append(["text", draw(leaf_strategy())])
        return evs

    return doc()


def interpret(events):
    """Reference interpreter. Returns ('ok', markup, plain, [style spec per char]) or ('error', markup)."""
    from rich.markup import escape

    markup = ""
    plain = ""
    per_char = []
    stack = []  # (key, spec)
    error = False
    for ev in events:
        kind = ev[0]
        if kind == "text":
            leaf = ev[1]
            markup += escape(leaf)
            if not error:
                cur = GS.merge(*[spec for _, spec in stack])
                kept = "".join(ch for ch in leaf if ch not in STRIPPED)
                for ch in kept:
                    per_char.append(cur)
                plain += kept
        elif kind == "open":
            markup += "[" + ev[1] + "]"
            if not error:
                key, _, spec = TAGS[ev[1]]
                stack.append((key, spec))
        elif kind == "close":
            key, spellings, _ = TAGS[ev[1]]
            markup += "[/" + spellings[ev[2] % len(spellings)] + "]"
            if not error:
                for i in range(len(stack) - 1, -1, -1):
                    if stack[i][0] == key:
                        del stack[i]
                        break
                else:
                    error = True
        else:
            markup += "[/]"
            if not error:
                if stack:
                    stack.pop()
                else:
                    error = True
    if error:
        return ("error", markup)
    return ("ok", markup, plain, per_char)


class TagDocs(Part):
    name = "tag-documents"
    rule = ("event lists of open(tag)/close(name, spelling)/close-any/text(escaped leaf) over 15 tags (aliases, reordered words, negation, link=, hex, "
            "non-style name), free-form and mostly-well-nested; reference = stack interpreter folding open tags in opening order; "
            "non-trivial = no error, and some character has >=2 open tags that set the same field to different values")
    budget = {"quick": (4, 2000), "thorough": (16, 25000)}

    def strategy(self, tier):
        free = st.lists(event_strategy(), min_size=1, max_size=14).map(lambda evs: [list(e) for e in evs])
        base = st.one_of(st.none(), st.none(), st.sampled_from(GS.PALETTE))
        switch = st.one_of(st.none(), st.tuples(st.booleans(), st.sampled_from([None, True, False])).map(list))
        return st.builds(lambda evs, b1, b2, sw, args: {"events": evs, "base": b1, "base2": b2, "switch": sw, "args": args}, st.one_of(free, well_nested(), well_nested()), base, base, switch,
                         st.one_of(st.none(), st.integers(0, 12)))

    def check(self, spec, ctx):
        from rich.markup import render
        from rich.errors import MarkupError
        from rich.text import Text

        evs = spec["events"]
        # leaves must satisfy the side condition, and must not be followed directly by something making them ambiguous
        for ev in evs:
            if ev[0] == "text" and not side_ok(ev[1]):
                return
        res = interpret(evs)
        markup = res[1]
        try:
            text = render(markup, emoji=False)
            raised = None
        except MarkupError as e:
            raised = e
        except Exception as e:  # noqa
            raise SutError(e)
        if res[0] == "error":
            ctx.cls("error-doc")
            if raised is None:
                ctx.violation("markup-error", "C04/error/missing", "render(%r) did not raise MarkupError; result %r" % (markup, text.markup if hasattr(text, 'markup') else text))
            return
        if raised is not None:
            ctx.violation("markup-error", "C04/error/spurious", "render(%r) raised %r but every closing tag has something to close" % (markup, raised))
            return
        _, _, plain, per_char = res
        if text.plain != plain:
            ctx.violation("plain", "C04/plain/changed", "render(%r).plain = %r, expected %r" % (markup, text.plain, plain))
            return
        got = TV.char_styles(text)
        for i, ((ch, sv), want) in enumerate(zip(got, per_char)):
            wv = GS.spec_view(want)
            if sv != wv:
                ctx.violation("styling", "C04/style/precedence" if set(a for a, _ in sv[0]) | {bool(sv[1]), bool(sv[2]), bool(sv[3])} == set(a for a, _ in wv[0]) | {bool(wv[1]), bool(wv[2]), bool(wv[3])} else "C04/style/coverage",
                              "render(%r): character %d %r has %r, expected %r" % (markup, i, ch, sv, wv))
                return
        # the same document under a base style, twice with different ones (what one call computed must not colour the next)
        for bspec in (spec.get("base"), spec.get("base2")):
            if bspec is None:
                continue
            tb = sut(render, markup, style=GS.build_style(bspec), emoji=False)
            gotb = TV.char_styles(tb)
            if tb.plain != plain:
                ctx.violation("plain", "C04/plain/base-style", "render(%r, style=...) plain %r, expected %r" % (markup, tb.plain, plain))
                return
            for i, ((ch, sv), want) in enumerate(zip(gotb, per_char)):
                wv = GS.spec_view(GS.merge(bspec, want))
                if sv != wv:
                    ctx.violation("styling", "C04/style/base-style", "render(%r, style=%r): character %d %r has %r, expected %r" % (markup, bspec, i, ch, sv, wv))
                    return
        again = sut(render, markup, emoji=False)
        if again.plain != plain or TV.char_styles(again) != got:
            ctx.violation("styling", "C04/style/not-repeatable", "render(%r) gives a different result after the same markup was rendered with a base style" % markup)
            return
        # Text.from_markup agrees
        t2 = sut(Text.from_markup, markup, emoji=False)
        if t2.plain != plain or TV.char_styles(t2) != got:
            ctx.violation("styling", "C04/style/from_markup", "Text.from_markup(%r) differs from markup.render" % markup)
            return
        # through a console: the per-call markup switch overrides the console's own setting, in both directions
        import io
        from rich.console import Console

        sw = spec.get("switch")
        if sw is not None:
            cm, pm = sw
            con = sut(Console, file=io.StringIO(), markup=cm, emoji=False, highlight=False, color_system=None, width=400, _environ={})
            t3 = sut(con.render_str, markup, markup=pm, emoji=False, highlight=False)
            enabled = cm if pm is None else pm
            if enabled:
                if t3.plain != plain or TV.char_styles(t3) != got:
                    ctx.violation("styling", "C04/switch/not-rendered", "Console(markup=%r).render_str(%r, markup=%r) gives %r with %r; markup is enabled for this call" % (cm, markup, pm, t3.plain, t3.spans))
                    return
            elif t3.plain != TM_strip(markup) or t3.spans:
                ctx.violation("styling", "C04/switch/rendered-although-disabled", "Console(markup=%r).render_str(%r, markup=%r) gives %r with %r; markup is disabled for this call" % (cm, markup, pm, t3.plain, t3.spans))
                return
            ctx.cls("console-switch-%s-%s" % (cm, pm))
        # on a console that highlights (the default): the highlighter may add styling below the tags, never above them - whatever the open tags specify still holds
        conh = sut(Console, file=io.StringIO(), emoji=False, highlight=True, color_system=None, width=400, _environ={})
        t4 = sut(conh.render_str, markup, emoji=False)
        hv = TV.char_styles(t4)
        if t4.plain != plain:
            ctx.violation("plain", "C04/highlight/plain", "Console(highlight=True).render_str(%r) gives text %r, expected %r" % (markup, t4.plain, plain))
            return
        for i, ((ch, tagv), (_, effv)) in enumerate(zip(got, hv)):
            eff_attrs = dict(effv[0])
            bad = [a for a, v in tagv[0] if eff_attrs.get(a) != v] + [n for n, k in (("color", 1), ("bgcolor", 2), ("link", 3)) if tagv[k] is not None and effv[k] != tagv[k]]
            if bad:
                ctx.violation("styling", "C04/highlight/overrides-tag", "Console(highlight=True).render_str(%r): character %d %r is inside tags that give it %r, but it comes out as %r (%s overridden by the highlighter)" % (
                    markup, i, ch, tagv, effv, ", ".join(bad)))
                return
        if any(e != g[1] for g, (_, e) in zip(got, hv)):
            ctx.cls("highlighter-added-styling")
        # print() and log() with several string arguments: every argument is markup of its own (what one leaves open does not run into the next),
        # and the per-call switches of log() mean what those of print() mean
        if spec.get("args") is not None and len(evs) >= 2:
            cut = 1 + spec["args"] % (len(evs) - 1)
            r1, r2 = interpret(evs[:cut]), interpret(evs[cut:])
            if r1[0] == "ok" and r2[0] == "ok":
                import re as _re

                def printed(c, *a, **kw):
                    c.file.seek(0)
                    c.file.truncate(0)
                    sut(c.print, *a, **kw)
                    return _re.sub(r"id=[0-9.]+-[0-9]+", "id=X", c.file.getvalue())

                def logged(c, *a, **kw):
                    c.file.seek(0)
                    c.file.truncate(0)
                    sut(c.log, *a, **kw)
                    return _re.sub(r"id=[0-9.]+-[0-9]+", "id=X", c.file.getvalue())

                c2 = sut(Console, file=io.StringIO(), color_system="truecolor", force_terminal=True, legacy_windows=False, width=300, log_time=False, log_path=False, emoji=True, highlight=False, _environ={})
                t1, t2 = sut(render, r1[1], emoji=False), sut(render, r2[1], emoji=False)
                joined = Text(" ").join([t1, t2])   # string arguments are rendered one by one and joined with the separator
                want = printed(c2, joined)
                got_out = printed(c2, r1[1], r2[1], emoji=False)
                if got_out != want:
                    ctx.violation("styling", "C04/args/print", "print(%r, %r) wrote %r; printing the two rendered texts writes %r" % (r1[1], r2[1], got_out[:300], want[:300]))
                    return
                want_l = logged(c2, joined)
                got_l = logged(c2, r1[1], r2[1], emoji=False, markup=True)
                if got_l != want_l:
                    ctx.violation("styling", "C04/args/log", "log(%r, %r, markup=True, emoji=False) wrote %r; logging the two rendered texts writes %r" % (r1[1], r2[1], got_l[:300], want_l[:300]))
                    return
                lit = logged(c2, r1[1], markup=False, emoji=True)
                if TM_strip(r1[1]).replace("\n", "") not in SGRmod.visible(lit).replace("\n", "").replace(" ", " ") and ":" not in r1[1] and "\n" not in r1[1] and "\r" not in r1[1]:
                    ctx.violation("styling", "C04/args/log-literal", "log(%r, markup=False) does not show the text literally: %r" % (r1[1], lit[:300]))
                    return
                ctx.cls("several-arguments")
        # non-trivial: conflicting open tags over some character
        stack = []
        conflict = False
        for ev in evs:
            if ev[0] == "open":
                stack.append(TAGS[ev[1]])
            elif ev[0] == "close":
                key = TAGS[ev[1]][0]
                for i in range(len(stack) - 1, -1, -1):
                    if stack[i][0] == key:
                        del stack[i]
                        break
            elif ev[0] == "closeany":
                stack.pop()
            elif ev[0] == "text":
                specs = [s for _, _, s in stack if s]
                for i, a in enumerate(specs):
                    for b in specs[i + 1:]:
                        for f in ("color", "bgcolor", "link"):
                            if a[f] and b[f] and a[f] != b[f]:
                                conflict = True
                        for k, v in a["attrs"].items():
                            if k in b["attrs"] and b["attrs"][k] != v:
                                conflict = True
        if conflict:
            ctx.nontrivial = True
            ctx.cls("conflicting-open-tags")


class EscapeGenerated(Part):
    name = "escape-generated"
    rule = ("Hypothesis strings up to length 40 over a wide alphabet (markup symbols, letters, digits, punctuation, wide chars), standalone and embedded "
            "between generated complete markup (prefix/suffix built from the tag-document generator); non-trivial = s has a tag-shaped substring or "
            "backslash before '[' and satisfies the side condition")
    budget = {"quick": (4, 2500), "thorough": (16, 25000)}

    def strategy(self, tier):
        sym = st.sampled_from(["[", "]", "\\", "/", "=", "#", "a", "b", "z", "1", " ", "\n", ":", ".", ",", "-", "_", "(", ")", "漢", "😀", "red", "bold", "[/", "[a", "\\["])
        raw = st.lists(sym, max_size=20).map("".join)

        def fix(t):  # construct (not filter) strings that meet the embedded side condition
            t = t.rstrip("\\")
            if not side_ok(t):
                t += "]"
            return t

        s = st.one_of(raw, raw.map(fix), raw.map(fix))
        return st.builds(lambda s, pre, suf: {"s": s, "pre": pre, "suf": suf}, s, well_nested(), st.lists(st.tuples(st.just("text"), leaf_strategy()).map(list), max_size=3))

    def check(self, spec, ctx):
        import re

        s = spec["s"]
        if not check_escape(ctx, s):
            return
        tagish = bool(re.search(r"\[[a-z#/].*?\]", s)) or "\\[" in s
        if not side_ok(s):
            ctx.cls("standalone-only")
            return
        pre_ev = spec["pre"]
        for ev in pre_ev:
            if ev[0] == "text" and not side_ok(ev[1]):
                return
        res = interpret(pre_ev)
        if res[0] != "ok":
            return
        _, pre_markup, pre_plain, _ = res
        if pre_markup.endswith("\\"):
            return
        # styles open at the insertion point
        open_stack = []
        for ev in pre_ev:
            if ev[0] == "open":
                open_stack.append(TAGS[ev[1]])
            elif ev[0] == "close":
                key = TAGS[ev[1]][0]
                for i in range(len(open_stack) - 1, -1, -1):
                    if open_stack[i][0] == key:
                        del open_stack[i]
                        break
            elif ev[0] == "closeany":
                open_stack.pop()
        want = GS.spec_view(GS.merge(*[sp for _, _, sp in open_stack]))
        sres = interpret(spec["suf"])
        suf_markup, suf_plain = sres[1], sres[2]
        if check_embedded(ctx, s, pre_markup, suf_markup, pre_plain, suf_plain, want):
            if tagish:
                ctx.nontrivial = True
            ctx.cls("embedded")


# ------------------------------------------------------------------------------------------------ documents with emoji codes
# Emoji replacement (on by default in render / Text.from_markup / Console) changes the LENGTH of the text between the tags;
# the tags must still style exactly the characters they enclose.
EMOJI_VALID = [":smiley:", ":a:", ":b:", ":warning:", ":thumbs_up:", ":+1:", ":e-mail:", ":england:", ":bald_man:", ":SMILEY:", ":Thumbs_Up:",
               ":mrs._claus:", ":on!_arrow:", ":link:", ":red_circle:", ":x:", ":heart:"]
EMOJI_NOT = [":nope:", ":bold:", ":red:", ":smi ley:", "::", ":", "12:30", "a: b", "http://x", ":smiley", "smiley:", ": smiley :", ":/:", ":#a:"]
EMOJI_WORDS = ["hi", " ", " there ", "x", "\n", "漢字", "😃", "[1]", "]", " almost full", "a=b", "1,2", "see log"]
EMOJI_LIT = ["[red]", "[/]", "[/bold]", "[link=z]", "[b]", "[#fff]"]   # tag-shaped literal text, written with a backslash before the bracket


def emoji_ref(s):
    """Reference for emoji codes in one piece of text: scanning left to right, ':name:' (no white space in name, the first following colon ends it)
    is replaced when name (lower-cased) is in the emoji table; a candidate that is not in the table stays as it is and is passed over as a whole."""
    from rich._emoji_codes import EMOJI

    out = []
    i = 0
    n = len(s)
    while i < n:
        if s[i] == ":":
            j = s.find(":", i + 1)
            if j != -1 and not any(c.isspace() for c in s[i + 1:j]):
                rep = EMOJI.get(s[i + 1:j].lower())
                out.append(s[i:j + 1] if rep is None else rep)
                i = j + 1
                continue
        out.append(s[i])
        i += 1
    return "".join(out)


def emoji_piece():
    from rich._emoji_codes import EMOJI

    anycode = st.sampled_from(sorted(EMOJI)).map(lambda name: ":%s:" % name)
    word = st.text(st.sampled_from(list("abxyz01 ,.-_()\n:") + ["漢", "😀"]), min_size=1, max_size=6)
    return st.one_of(st.sampled_from(EMOJI_VALID), st.sampled_from(EMOJI_VALID), anycode, st.sampled_from(EMOJI_NOT),
                     st.sampled_from(EMOJI_WORDS), st.sampled_from(EMOJI_WORDS), st.sampled_from(EMOJI_WORDS), word)


def emoji_docs():
    """Mostly well-nested tag documents whose text pieces are words, emoji codes (valid or not) and escaped tag-shaped literals."""

    @st.composite
    def doc(draw):
        n = draw(st.integers(1, 12))
        evs = []
        stack = []
        for _ in range(n):
            k = draw(st.integers(0, 11))
            if k <= 2:
                t = draw(st.sampled_from(TAG_NAMES))
                evs.append(["open", t])
                stack.append(t)
            elif k <= 4 and stack:
                i = draw(st.integers(0, len(stack) - 1))
                t = stack[i if draw(st.booleans()) else -1]
                key = TAGS[t][0]
                for j in range(len(stack) - 1, -1, -1):
                    if TAGS[stack[j]][0] == key:
                        del stack[j]
                        break
                evs.append(["close", t, draw(st.integers(0, 3))])
            elif k == 5 and stack:
                stack.pop()
                evs.append(["closeany"])
            elif k == 6:
                evs.append(["lit", draw(st.sampled_from(EMOJI_LIT))])
            elif k == 7 and draw(st.integers(0, 5)) == 0:
                # now and then a close that may have nothing to close (MarkupError must not depend on emoji replacement either)
                evs.append(["close", draw(st.sampled_from(TAG_NAMES)), 0] if draw(st.booleans()) else ["closeany"])
                return evs + [["text", draw(emoji_piece())]]
            else:
                evs.append(["text", draw(emoji_piece())])
        return evs

    return doc()


def interpret_emoji(events):
    """Reference interpreter for documents with emoji codes.  Returns ('ok', markup, chunks) or ('error', markup);
    chunks = [[raw text, style spec]]: one per maximal stretch of text between tags, escaped tag-shaped literals being stretches of their own."""
    markup = ""
    chunks = []
    stack = []
    error = False
    fresh = True
    for ev in events:
        kind = ev[0]
        if kind == "text":
            markup += ev[1]
            if not error:
                if fresh:
                    chunks.append([ev[1], GS.merge(*[spec for _, spec in stack])])
                    fresh = False
                else:
                    chunks[-1][0] += ev[1]
            continue
        fresh = True
        if kind == "lit":
            markup += "\\" + ev[1]
            if not error:
                chunks.append([ev[1], GS.merge(*[spec for _, spec in stack])])
        elif kind == "open":
            markup += "[" + ev[1] + "]"
            if not error:
                key, _, spec = TAGS[ev[1]]
                stack.append((key, spec))
        elif kind == "close":
            key, spellings, _ = TAGS[ev[1]]
            markup += "[/" + spellings[ev[2] % len(spellings)] + "]"
            if not error:
                for i in range(len(stack) - 1, -1, -1):
                    if stack[i][0] == key:
                        del stack[i]
                        break
                else:
                    error = True
        else:
            markup += "[/]"
            if not error:
                if stack:
                    stack.pop()
                else:
                    error = True
    if error:
        return ("error", markup)
    return ("ok", markup, chunks)


class EmojiDocs(Part):
    name = "emoji-documents"
    rule = ("tag documents (open / close by any spelling / close-any over the 15 tags, mostly well nested, now and then a close with nothing to close) whose text "
            "pieces are words, VALID emoji codes (17 fixed ones incl. upper case, punctuation in the name, multi-code-point replacements, + any name of the "
            "emoji table), look-alikes that are not codes (':nope:', '12:30', 'a: b', '::', ':smi ley:'), non-tag brackets and escaped tag-shaped literals; "
            "rendered with emoji replacement ON - the default of markup.render / Text.from_markup / Console.render_str, and spelled out - optionally under a "
            "base style, then with emoji=False, then ON again, and through Console(emoji=c).render_str(emoji=p) for generated c, p. Reference: the tag-stack "
            "interpreter gives every stretch of text between tags its open tags; with replacement on, the text is each stretch with its codes replaced "
            "(own left-to-right scanner over the emoji table) and every resulting character carries exactly the tags of its stretch; with replacement off "
            "the stretches are verbatim with the same tags; MarkupError exactly when a close has nothing to close, with or without replacement. Documents in "
            "which replacing codes over the whole text would differ from replacing them stretch by stretch (a ':' pair straddling a tag - the statement is "
            "silent) are only checked with emoji=False. Non-trivial = with replacement on some code is replaced and a later non-empty stretch has a "
            "different set of open-tag styles (a tag boundary with text after it follows the code)")
    budget = {"quick": (8, 500), "thorough": (16, 20000)}

    def strategy(self, tier):
        base = st.one_of(st.none(), st.none(), st.sampled_from(GS.PALETTE))
        switch = st.one_of(st.none(), st.tuples(st.booleans(), st.sampled_from([None, True, False])).map(list))
        return st.builds(lambda evs, b, sw: {"events": evs, "base": b, "switch": sw}, emoji_docs(), base, switch)

    def check(self, spec, ctx):
        import io
        from rich.markup import render
        from rich.errors import MarkupError
        from rich.text import Text
        from rich.console import Console

        evs = spec["events"]
        res = interpret_emoji(evs)
        markup = res[1]

        def call(fn, *a, **kw):
            try:
                return fn(*a, **kw), None
            except MarkupError as e:
                return None, e
            except Exception as e:  # noqa
                raise SutError(e)

        hows = [("render(m)", lambda: render(markup), True), ("render(m, emoji=True)", lambda: render(markup, emoji=True), True),
                ("Text.from_markup(m)", lambda: Text.from_markup(markup), True), ("Text.from_markup(m, emoji=True)", lambda: Text.from_markup(markup, emoji=True), True),
                ("render(m, emoji=False)", lambda: render(markup, emoji=False), False), ("render(m) again", lambda: render(markup), True)]
        if res[0] == "error":
            ctx.cls("error-doc")
            for label, fn, _ in hows:
                t, raised = call(fn)
                if raised is None:
                    ctx.violation("markup-error", "C04/emoji/error-missing", "%s with m = %r did not raise MarkupError; result %r %r" % (label, markup, t.plain, t.spans))
                    return
            return
        chunks = res[2]
        raw = [c[0] for c in chunks]
        rep = [emoji_ref(r) for r in raw]
        views = [GS.spec_view(c[1]) for c in chunks]
        want_off = [(ch, v) for r, v in zip(raw, views) for ch in r]
        want_on = [(ch, v) for r, v in zip(rep, views) for ch in r]
        straddle = emoji_ref("".join(raw)) != "".join(rep)
        if straddle:
            ctx.cls("code-straddles-a-tag")

        def compare(label, t, want, sig):
            wp = "".join(ch for ch, _ in want)
            if t.plain != wp:
                ctx.violation("plain", "C04/emoji/plain" + sig, "%s with m = %r gives text %r, expected %r" % (label, markup, t.plain, wp))
                return False
            got = TV.char_styles(t)
            for i, ((ch, sv), (_, wv)) in enumerate(zip(got, want)):
                if sv != wv:
                    ctx.violation("styling", "C04/emoji/style" + sig, "%s with m = %r gives %r: character %d %r has %r, but the tags open there give %r" % (label, markup, t.plain, i, ch, sv, wv))
                    return False
            if len(got) != len(want):
                ctx.violation("plain", "C04/emoji/plain" + sig, "%s with m = %r renders %d characters, expected %d" % (label, markup, len(got), len(want)))
                return False
            return True

        for label, fn, on in hows:
            t, raised = call(fn)
            if raised is not None:
                ctx.violation("markup-error", "C04/emoji/error-spurious", "%s with m = %r raised %r but every closing tag has something to close" % (label, markup, raised))
                return
            if on and straddle:
                continue
            if not compare(label, t, want_on if on else want_off, "" if on else "-off"):
                return
        bspec = spec.get("base")
        if bspec is not None and not straddle:
            tb = sut(render, markup, style=GS.build_style(bspec))
            wb = [(ch, GS.spec_view(GS.merge(bspec, c[1]))) for r, c in zip(rep, chunks) for ch in r]
            if not compare("render(m, style=%r)" % (bspec,), tb, wb, "-base"):
                return
            ctx.cls("base-style")
        sw = spec.get("switch")
        if sw is not None:
            ce, pe = sw
            enabled = ce if pe is None else pe
            if not (enabled and straddle):
                con = sut(Console, file=io.StringIO(), emoji=ce, highlight=False, color_system=None, width=400, _environ={})
                kw = {} if pe is None else {"emoji": pe}
                t3 = sut(con.render_str, markup, **kw)
                if not compare("Console(emoji=%r).render_str(m%s)" % (ce, "" if pe is None else ", emoji=%r" % pe), t3, want_on if enabled else want_off, "-console"):
                    return
                ctx.cls("console-emoji-%s-%s" % (ce, pe))
        if straddle:
            return
        first = next((i for i, (r, p) in enumerate(zip(raw, rep)) if r != p), None)
        if first is not None:
            ctx.cls("code-replaced")
            if any(rep[j] and views[j] != views[first] for j in range(first + 1, len(chunks))):
                ctx.nontrivial = True
                ctx.cls("tag-boundary-after-code")


PARTS = [EscapeExhaustive(), EscapeGenerated(), TagDocs(), BracketAnyChar(), EmojiDocs()]
