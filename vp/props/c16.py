"""C16 - pretty-printed data evaluates back to the data."""
import ast
import re
from array import array
from collections import Counter, defaultdict, deque
from hypothesis import strategies as st

from ..core import Part, sut, SutError
from ..oracles import cells as OC
from ..gen import chars as GC

PROP_ID = "C16"
LEVEL = "exploration"
RULE = "Hypothesis: recursive value specs (depth <= 6) over the built-in containers and literals x max_width x indent_size x expand_all x max_length x max_string; cyclic values"
ASSUMPTIONS = [
    "floats are finite and not NaN; defaultdict factories are None/int/list and <class 'int'> is rewritten to int before eval, exactly as needed for Python's own repr - DESIGN 7.13",
    "deque(maxlen=...) evaluates back to an equal deque (deque equality and type ignore maxlen, which the statement does not mention)",
    "equality is structural: same container types at every level, not only ==",
    "abbreviation markers are compared against an independent single-line reference printer at unlimited width",
]

EVAL_ENV = {"deque": deque, "Counter": Counter, "defaultdict": defaultdict, "array": array, "set": set, "frozenset": frozenset, "int": int, "list": list, "__builtins__": {}}


# ------------------------------------------------------------------------------------------------ generation
def leaf(hashable_only=False):
    s = st.text(st.one_of(st.sampled_from("abcxyz 01"), st.sampled_from(["'", '"', "\n", "\\", "\t"]), st.sampled_from(GC.WIDE[:5]), st.sampled_from(GC.ZERO[:2])), max_size=12)
    # long strings whose cell width differs from their length (combining marks, wide characters): more than 64 characters
    longs = st.builds(lambda unit, n: ["str", (unit * 60)[:n]], st.sampled_from(["e\u0301", "a" + GC.ZERO[0], GC.WIDE[0], "ab", "\u0e01\u0e34", "x" + GC.ZERO[1] + GC.ZERO[0]]), st.integers(65, 110))
    return st.one_of(
        s.map(lambda x: ["str", x]), s.map(lambda x: ["str", x]), s.map(lambda x: ["str", x]), longs,
        st.binary(max_size=6).map(lambda b: ["bytes", b.hex()]),
        st.integers(-10**6, 10**12).map(lambda n: ["int", n]),
        st.integers(0, 9).map(lambda n: ["int", n]),
        st.floats(allow_nan=False, allow_infinity=False, width=64).map(lambda f: ["float", f]),
        st.booleans().map(lambda b: ["bool", b]),
        st.just(["none"]),
    )


def hashable(depth=0):
    if depth >= 2:
        return leaf()
    kids = st.lists(st.deferred(lambda: hashable(depth + 1)), max_size=3)
    return st.one_of(leaf(), leaf(), kids.map(lambda k: ["tuple", k]), kids.map(lambda k: ["frozenset", k]))


def value(depth=0, max_depth=6):
    if depth >= max_depth:
        return leaf()
    # ["ref", i]: the i-th container completed so far in this value, again (the same object referenced from two places; never a cycle)
    kid = st.one_of(st.deferred(lambda: value(depth + 1, max_depth)), st.deferred(lambda: value(depth + 1, max_depth)), st.deferred(lambda: value(depth + 1, max_depth)),
                    st.integers(0, 7).map(lambda i: ["ref", i]))
    kids = st.lists(kid, max_size=4)
    pairs = st.lists(st.tuples(hashable(1), kid).map(list), max_size=4)
    containers = st.one_of(
        kids.map(lambda k: ["list", k]),
        kids.map(lambda k: ["tuple", k]),
        st.lists(kid, min_size=1, max_size=1).map(lambda k: ["tuple", k]),
        pairs.map(lambda p: ["dict", p]),
        st.lists(hashable(1), max_size=4).map(lambda k: ["set", k]),
        st.lists(hashable(1), max_size=4).map(lambda k: ["frozenset", k]),
        st.tuples(kids, st.one_of(st.none(), st.integers(1, 6))).map(lambda t: ["deque", t[0], t[1]]),
        st.lists(st.tuples(hashable(1), st.integers(-3, 9)).map(list), max_size=4).map(lambda p: ["Counter", p]),
        st.tuples(st.sampled_from(["none", "int", "list"]), pairs).map(lambda t: ["defaultdict", t[0], t[1]]),
        st.one_of(
            st.lists(st.integers(-128, 127), max_size=4).map(lambda v: ["array", "b", v]),
            st.lists(st.integers(-1000, 1000), max_size=4).map(lambda v: ["array", "i", v]),
            st.lists(st.floats(allow_nan=False, allow_infinity=False, width=64), max_size=3).map(lambda v: ["array", "d", v]),
            st.text(st.sampled_from("abc'\"é"), max_size=4).map(lambda v: ["array", "u", list(v)]),
            # arrays make their items on the fly (a new str / int / float object per access): longer ones, characters beyond Latin-1 (not interned), ints beyond the small-int cache
            st.text(st.sampled_from("ab\u4f60\u597d\u4e16\u754c\U0001F600\U0001F680\u0142\u0301\n'"), min_size=2, max_size=12).map(lambda v: ["array", "u", list(v)]),
            st.lists(st.integers(250, 70000), min_size=2, max_size=10).map(lambda v: ["array", "i", v]),
            st.lists(st.floats(allow_nan=False, allow_infinity=False, width=64), min_size=2, max_size=8).map(lambda v: ["array", "d", v]),
        ),
    )
    # two mappings whose keys are equal but print differently ((1, 2) / (1.0, 2.0) / (True, 2)): each must show its own keys
    def twin_key(k, mode):
        if k[0] == "int" and mode == 0:
            return ["float", float(k[1])]
        if k[0] == "int" and k[1] in (0, 1) and mode == 1:
            return ["bool", bool(k[1])]
        if k[0] in ("tuple", "frozenset"):
            return [k[0], [twin_key(x, mode) for x in k[1]]]
        return k

    small_int = st.integers(0, 3).map(lambda n: ["int", n])
    ckey = st.one_of(small_int, st.lists(small_int, min_size=1, max_size=3).map(lambda ks: ["tuple", ks]), st.lists(small_int, min_size=1, max_size=2).map(lambda ks: ["frozenset", ks]))
    twins = st.builds(lambda pairs, mode, kind: [kind, [["dict", [[k, v] for k, v in pairs]], ["dict", [[twin_key(k, mode), v] for k, v in pairs]]]],
                      st.lists(st.tuples(ckey, leaf()), min_size=1, max_size=3, unique_by=lambda kv: repr(kv[0])), st.integers(0, 1), st.sampled_from(["list", "tuple"]))
    containers = st.one_of(containers, containers, containers, containers, containers, containers, twins)
    if depth == 0:
        return st.one_of(containers, containers, containers, leaf())
    return st.one_of(leaf(), leaf(), containers)


def build(spec, done=None):
    """done: containers completed so far (build order); a ["ref", i] node is done[i % len(done)] - the same object once more."""
    done = done if done is not None else []
    k = spec[0]
    if k == "ref":
        return done[spec[1] % len(done)] if done else None
    v = _build(spec, done)
    if k in ("list", "tuple", "dict", "set", "frozenset", "deque", "Counter", "defaultdict") and len(v) > 0:
        done.append(v)
    return v


def _build(spec, done):
    k = spec[0]
    if k == "str":
        return spec[1]
    if k == "bytes":
        return bytes.fromhex(spec[1])
    if k in ("int", "float", "bool"):
        return spec[1]
    if k == "none":
        return None
    if k == "list":
        return [build(x, done) for x in spec[1]]
    if k == "tuple":
        return tuple(build(x, done) for x in spec[1])
    if k == "dict":
        return {build(a, done): build(b, done) for a, b in spec[1]}
    if k == "set":
        return {build(x, done) for x in spec[1]}
    if k == "frozenset":
        return frozenset(build(x, done) for x in spec[1])
    if k == "deque":
        return deque([build(x, done) for x in spec[1]], maxlen=spec[2])
    if k == "Counter":
        c = Counter()
        for a, n in spec[1]:
            c[build(a, done)] = n
        return c
    if k == "defaultdict":
        d = defaultdict({"none": None, "int": int, "list": list}[spec[1]])
        for a, b in spec[2]:
            d[build(a, done)] = build(b, done)
        return d
    if k == "array":
        return array(spec[1], spec[2])
    raise ValueError(spec)


def canon(v):
    """Structural canonical form: container types matter at every level."""
    t = type(v)
    if t in (list, tuple, deque):
        return (t.__name__, tuple(canon(x) for x in v))
    if t in (dict, Counter, defaultdict):
        extra = repr(v.default_factory) if t is defaultdict else ""
        return (t.__name__, extra, tuple(sorted(((canon(a), canon(b)) for a, b in v.items()), key=repr)))
    if t in (set, frozenset):
        return (t.__name__, tuple(sorted((canon(x) for x in v), key=repr)))
    if t is array:
        return ("array", v.typecode, tuple(v))
    if t is float:
        return ("float", v.hex())
    return (t.__name__, v)


BUILTIN_ONLY = {"list", "tuple", "dict", "set", "frozenset", "str", "bytes", "int", "float", "bool", "none", "ref"}


def kinds(spec, acc=None, depth=0, info=None):
    acc = acc if acc is not None else set()
    info = info if info is not None else {"depth": 0, "one_tuple_below": False, "empty_typed_below": False}
    acc.add(spec[0])
    if spec[0] == "ref":
        return acc, info
    info["depth"] = max(info["depth"], depth)
    k = spec[0]
    if depth > 0:
        if k == "tuple" and len(spec[1]) == 1:
            info["one_tuple_below"] = True
        if k in ("deque", "Counter", "set", "frozenset") and not spec[1]:
            info["empty_typed_below"] = True
        if k == "defaultdict" and not spec[2]:
            info["empty_typed_below"] = True
        if k == "array" and not spec[2]:
            info["empty_typed_below"] = True
    if k in ("list", "tuple", "set", "frozenset", "deque"):
        for x in spec[1]:
            kinds(x, acc, depth + 1, info)
    elif k in ("dict",):
        for a, b in spec[1]:
            kinds(a, acc, depth + 1, info)
            kinds(b, acc, depth + 1, info)
    elif k == "Counter":
        for a, _ in spec[1]:
            kinds(a, acc, depth + 1, info)
    elif k == "defaultdict":
        for a, b in spec[2]:
            kinds(a, acc, depth + 1, info)
            kinds(b, acc, depth + 1, info)
    return acc, info


# ------------------------------------------------------------------------------------------------ reference single-line printer
def ref_repr(v, max_length=None, max_string=None, _seen=None):
    _seen = _seen or set()
    t = type(v)

    def atom(x):
        if max_string is not None and isinstance(x, (str, bytes)) and len(x) > max_string:
            return "%r+%d" % (x[:max_string], len(x) - max_string)
        return repr(x)

    table = {
        list: ("[", "]", "[]"), tuple: ("(", ")", "()"), dict: ("{", "}", "{}"), set: ("{", "}", "set()"), frozenset: ("frozenset({", "})", "frozenset()"),
        deque: ("deque([", "])", "deque()"), Counter: ("Counter({", "})", "Counter()"),
    }
    if t is defaultdict:
        f = repr(v.default_factory)
        braces = ("defaultdict(%s, {" % f, "})", "defaultdict(%s, {})" % f)
    elif t is array:
        braces = ("array(%r, [" % v.typecode, "])", "array(%r)" % v.typecode)
    elif t in table:
        braces = table[t]
    else:
        return atom(v)
    if id(v) in _seen:
        return "..."
    if len(v) == 0:
        return braces[2]
    _seen = _seen | {id(v)}
    n = len(v)
    items = []
    if t in (dict, Counter, defaultdict):
        it = list(v.items())
        shown = it if max_length is None else it[:max_length]
        for a, b in shown:
            items.append("%s: %s" % (atom(a), ref_repr(b, max_length, max_string, _seen)))
    else:
        it = list(v)
        shown = it if max_length is None else it[:max_length]
        for x in shown:
            items.append(ref_repr(x, max_length, max_string, _seen))
    if max_length is not None and n > max_length:
        items.append("... +%d" % (n - max_length))
    body = ", ".join(items)
    if t is tuple and len(items) == 1:
        body += ","
    return braces[0] + body + braces[1]


def payload_is_open_container(line):
    """True if the (stripped) line holds a complete non-empty container display (i.e. a container kept on one line)."""
    p = line.strip()
    if p.endswith(","):
        p = p[:-1]
    p = p.replace("<class 'int'>", "int").replace("<class 'list'>", "list")
    if not p:
        return False
    node = None
    try:
        node = ast.parse(p, mode="eval").body
    except SyntaxError:
        try:
            d = ast.parse("{" + p + "}", mode="eval").body
            if isinstance(d, ast.Dict) and len(d.values) == 1:
                node = d.values[0]
        except SyntaxError:
            return False
    if node is None:
        return False

    def nonempty(nd):
        if isinstance(nd, (ast.List, ast.Tuple, ast.Set)):
            return len(nd.elts) > 0
        if isinstance(nd, ast.Dict):
            return len(nd.keys) > 0
        if isinstance(nd, ast.Call):
            return any(nonempty(a) for a in nd.args)
        return False

    return nonempty(node)


class RoundTrip(Part):
    name = "roundtrip"
    rule = ("values nested to depth 6 over list/tuple(0,1,n)/dict/set/frozenset/deque(maxlen)/Counter/defaultdict(None,int,list)/array(b,i,d,u incl. empty) "
            "and str/bytes/int/float/bool/None leaves (wide characters, quotes, newlines, backslashes) x max_width 1..200 x indent_size 1..8 x expand_all: "
            "eval() round trip with structural equality, == repr() when it fits, indentation discipline, no over-wide line holding a collapsed non-empty "
            "container; non-trivial = depth >= 3 with a 1-tuple or an empty typed container below the root and repr wider than max_width")
    budget = {"quick": (8, 3000), "thorough": (16, 25000)}

    def strategy(self, tier):
        # ["rel", d]: the cell width of repr(value) plus d - the boundary between "fits on one line" and "must be expanded"
        width = st.one_of(st.integers(1, 30), st.integers(1, 30), st.integers(1, 200), st.integers(-3, 3).map(lambda d: ["rel", d]), st.integers(-3, 3).map(lambda d: ["rel", d]))
        return st.builds(lambda v, w, ind, ea: {"v": v, "max_width": w, "indent": ind, "expand_all": ea}, value(), width, st.integers(1, 8), st.sampled_from([False, False, False, True]))

    def check(self, spec, ctx):
        from rich.pretty import pretty_repr

        v = build(spec["v"])
        mw, ind, ea = spec["max_width"], spec["indent"], spec["expand_all"]
        if isinstance(mw, list):
            mw = max(1, OC.width(repr(v)) + mw[1])
            ctx.cls("width-at-the-fit-boundary")
        out = sut(pretty_repr, v, max_width=mw, indent_size=ind, expand_all=ea)
        ks, info = kinds(spec["v"])
        desc = "pretty_repr(%r, max_width=%d, indent_size=%d, expand_all=%r) ->\n%s" % (v, mw, ind, ea, out)
        src = out.replace("<class 'int'>", "int").replace("<class 'list'>", "list")
        try:
            back = eval(src, dict(EVAL_ENV))
        except Exception as e:  # noqa
            ctx.violation("eval", "C16/eval/%s" % ("empty-array" if "_object.typecode" in out else type(e).__name__), "%s\ndoes not evaluate: %r" % (desc, e))
            return
        if canon(back) != canon(v):
            one = info["one_tuple_below"] or (spec["v"][0] == "tuple" and len(spec["v"][1]) == 1)
            ctx.violation("eval", "C16/eval/%s" % ("one-tuple" if one and "tuple" in repr(canon(v)) and canon(back) != canon(v) and repr(canon(back)).count("tuple") < repr(canon(v)).count("tuple") else "different"),
                          "%s\nevaluates to %r" % (desc, back))
            return
        r = repr(v)
        fits = OC.width(r) <= mw
        if ks <= BUILTIN_ONLY and fits and not ea:
            if out != r:
                ctx.violation("single-line", "C16/single/not-repr", "%s\nrepr() fits in %d cells but the output differs from it: %r" % (desc, mw, r))
                return
        lines = out.split("\n")
        if len(lines) > 1:
            ctx.cls("expanded")
            prev = 0
            for ln in lines:
                lead = len(ln) - len(ln.lstrip(" "))
                if lead % ind != 0 or lead // ind > prev + 1:
                    ctx.violation("indent", "C16/indent/step", "%s\nline %r is indented %d with indent_size %d (previous level %d)" % (desc, ln, lead, ind, prev))
                    return
                prev = lead // ind
        for ln in lines:
            if OC.width(ln) > mw and payload_is_open_container(ln):
                ctx.violation("fit", "C16/fit/collapsed-too-wide", "%s\nline %r is %d cells (> %d) yet holds a non-empty container on one line" % (desc, ln, OC.width(ln), mw))
                return
        if ea and len(lines) == 1 and spec["v"][0] in ("list", "tuple", "dict", "set", "frozenset", "deque") and len(v) > 0:
            ctx.violation("expand_all", "C16/expandall/not-expanded", "%s\nexpand_all left a non-empty container on one line" % desc)
            return
        if info["depth"] >= 2 and (info["one_tuple_below"] or info["empty_typed_below"]) and not fits:
            ctx.nontrivial = True
        if "ref" in ks:
            ctx.cls("object-referenced-twice")
        if info["one_tuple_below"]:
            ctx.cls("one-tuple-below-root")
        if info["empty_typed_below"]:
            ctx.cls("empty-typed-container")


class Abbrev(Part):
    name = "abbreviation"
    rule = ("values as above (depth <= 3) x max_length 0..5/None x max_string 0..10/None at unlimited width compared with an independent single-line "
            "reference printer (item count shown == max_length, marker '... +(n-max_length)', strings cut to max_string with '+(len-max_string)'), and at a "
            "generated narrow width the markers must be the same multiset; cyclic lists/dicts must terminate and contain '...'; "
            "non-trivial = some container or string was actually abbreviated, or the value is cyclic")
    budget = {"quick": (8, 1500), "thorough": (16, 12000)}

    def strategy(self, tier):
        ml = st.one_of(st.none(), st.integers(0, 5))
        ms = st.one_of(st.none(), st.integers(0, 10))
        return st.builds(lambda v, ml, ms, w, cyc: {"v": v, "max_length": ml, "max_string": ms, "max_width": w, "cycle": cyc}, value(0, 3), ml, ms, st.integers(1, 60), st.sampled_from([None, None, None, "list", "dict", "nested"]))

    def check(self, spec, ctx):
        from rich.pretty import pretty_repr

        v = build(spec["v"])
        ml, ms = spec["max_length"], spec["max_string"]
        cyc = spec["cycle"]
        if cyc:
            if cyc == "list":
                v = [v, 1]
                v.append(v)
            elif cyc == "dict":
                v = {"k": v}
                v["self"] = v
            else:
                inner = [v]
                v = {"a": [1, inner]}
                inner.append(v)
            out = sut(pretty_repr, v, max_width=spec["max_width"], max_length=None, max_string=None)
            if "..." not in out:
                ctx.violation("cycle", "C16/cycle/no-marker", "cyclic value printed without an ellipsis marker: %s" % out[:300])
                return
            wide = sut(pretty_repr, v, max_width=10**6)
            want = ref_repr(v)
            if wide != want:
                ctx.violation("cycle", "C16/cycle/shape", "cyclic value printed as %r, reference %r" % (wide[:300], want[:300]))
            ctx.nontrivial = True
            ctx.cls("cyclic")
            return
        wide = sut(pretty_repr, v, max_width=10**6, max_length=ml, max_string=ms)
        want = ref_repr(v, ml, ms)
        if wide != want:
            sig = "C16/abbrev/%s" % ("empty-array" if "_object.typecode" in wide else ("length" if ml is not None and re.findall(r"\.\.\. \+\d+", wide) != re.findall(r"\.\.\. \+\d+", want) else "text"))
            ctx.violation("abbreviation", sig, "pretty_repr(%r, max_length=%r, max_string=%r) ->\n%r\nreference\n%r" % (v, ml, ms, wide, want))
            return
        narrow = sut(pretty_repr, v, max_width=spec["max_width"], max_length=ml, max_string=ms)
        mk = lambda s: sorted(re.findall(r"\.\.\. \+\d+|['\"]\+\d+", s))  # noqa
        if "".join(narrow.split()) != "".join(wide.split()) and mk(narrow) != mk(wide):
            ctx.violation("abbreviation", "C16/abbrev/width-dependent", "markers differ between widths: %r vs %r" % (narrow, wide))
            return
        if "... +" in want or re.search(r"['\"]\+\d+", want):
            ctx.nontrivial = True
            ctx.cls("abbreviated")


class Rerender(Part):
    name = "rerender"
    rule = ("the Pretty renderable of a list/dict value (short leaves, depth <= 3) printed and measured on a console, the value then edited in place (append / set key / "
            "edit of a nested container), and the same Pretty printed again at another width; optionally an earlier pretty_repr of the value was aborted by a RecursionError (a 3000-level "
            "chain that is removed again): every printed text evaluates to the value as it is at that moment; "
            "non-trivial = the edit changed a nested container and the second text spans several lines")
    budget = {"quick": (8, 600), "thorough": (16, 6000)}

    def strategy(self, tier):
        lf = st.one_of(st.integers(0, 99).map(lambda n: ["int", n]), st.text(st.sampled_from("abc"), max_size=5).map(lambda x: ["str", x]), st.just(["none"]))

        def val(depth):
            if depth >= 3:
                return lf
            kid = st.deferred(lambda: val(depth + 1))
            kids = st.lists(kid, max_size=4)
            cont = st.one_of(kids.map(lambda k: ["list", k]), st.lists(st.tuples(lf, kid).map(list), max_size=3).map(lambda p: ["dict", p]), kids.map(lambda k: ["tuple", k]))
            return cont if depth == 0 else st.one_of(lf, cont)

        root = st.one_of(st.lists(val(1), max_size=4).map(lambda k: ["list", k]), st.lists(st.tuples(lf, val(1)).map(list), max_size=3).map(lambda p: ["dict", p]))
        edit = st.tuples(st.sampled_from(["root", "nested"]), val(1)).map(list)
        return st.builds(lambda v, w1, w2, edits, measure, kw, ab, nr: {"v": v, "w1": w1, "w2": w2, "edits": edits, "measure": measure, "kw": kw, "abort": ab, "node_renders": nr, "justified": bool(nr) or ab}, root, st.integers(40, 120), st.integers(40, 120),
                         st.lists(edit, min_size=1, max_size=3), st.booleans(), st.sampled_from([{}, {}, {"expand_all": True}, {"indent_size": 2}, {"indent_size": 8}, {"indent_size": 7, "expand_all": True}, {"max_length": None, "margin": 3}]),
                         st.sampled_from([False, False, False, True]), st.one_of(st.just([]), st.lists(st.tuples(st.integers(8, 60), st.integers(1, 8)).map(list), min_size=2, max_size=4)))

    def check(self, spec, ctx):
        import io
        from rich.console import Console
        from rich.pretty import Pretty
        from rich.measure import Measurement

        v = build(spec["v"])
        if spec.get("abort"):
            # an earlier attempt to print the value failed half-way (it was nested too deeply then: RecursionError); the offending part is removed afterwards
            from rich.pretty import pretty_repr

            deep = cur = []
            for _ in range(3000):
                nxt = []
                cur.append(nxt)
                cur = nxt
            if isinstance(v, dict):
                v["deep"] = deep
            else:
                v.append(deep)
            import gc

            gc.disable()   # a collection that starts at the recursion limit makes Hypothesis's gc callback fail noisily
            try:
                pretty_repr(v)
            except RecursionError:
                ctx.cls("earlier-traversal-aborted")
            except Exception as e:  # noqa
                raise SutError(e)
            finally:
                gc.enable()
            if isinstance(v, dict):
                del v["deep"]
            else:
                v.pop()
        pretty = sut(Pretty, v, **spec["kw"])
        # one traversal rendered several times (pretty_repr accepts the Node that traverse() returns; tracebacks keep such nodes): every rendering equals a fresh one
        if spec.get("node_renders"):
            from rich.pretty import pretty_repr, traverse

            node = sut(traverse, v)
            for w, ind in spec["node_renders"]:
                a = sut(pretty_repr, node, max_width=w, indent_size=ind)
                b = sut(pretty_repr, v, max_width=w, indent_size=ind)
                if a != b:
                    ctx.violation("eval", "C16/rerender/node", "pretty_repr of one traversed Node at width %d, indent %d (after %r) differs from a fresh pretty_repr of the value %r:\n%s\n--- fresh ---\n%s" % (
                        w, ind, spec["node_renders"], v, a, b))
                    return
            ctx.cls("node-rendered-%d-times" % len(spec["node_renders"]))

        def show(w, when):
            con = Console(file=io.StringIO(), width=w, color_system=None, force_terminal=False, _environ={})
            if spec["measure"]:
                sut(Measurement.get, con, pretty, w)
            # sometimes through something that measures first and renders at the measured width (justify= wraps the renderable in an Align)
            if spec.get("justified") and when == "first":
                sut(con.print, pretty, justify="left")
                ctx.cls("printed-through-align")
            else:
                sut(con.print, pretty)
            out = con.file.getvalue()
            try:
                back = eval(out, dict(EVAL_ENV))
            except Exception as e:  # noqa
                ctx.violation("eval", "C16/rerender/eval-%s" % type(e).__name__, "Pretty(%r) printed %s at width %d:\n%s\ndoes not evaluate: %r" % (v, when, w, out, e))
                return None
            if canon(back) != canon(v):
                ctx.violation("eval", "C16/rerender/stale", "Pretty of a value that is now %r printed %s at width %d:\n%s" % (v, when, w, out))
                return None
            return out

        if show(spec["w1"], "first") is None:
            return
        if spec.get("justified"):
            # the REPL display hook installed by rich.pretty.install(): what it shows for a value is the pretty representation too
            import builtins
            import sys as _sys
            from rich.pretty import install

            old_hook, old_underscore = _sys.displayhook, getattr(builtins, "_", None)
            con2 = Console(file=io.StringIO(), width=spec["w1"], color_system=None, force_terminal=False, _environ={})
            try:
                sut(install, console=con2)
                sut(_sys.displayhook, v)
            finally:
                _sys.displayhook = old_hook
                builtins._ = old_underscore
            shown = con2.file.getvalue()
            try:
                ok = canon(eval(shown, dict(EVAL_ENV))) == canon(v)
            except Exception:  # noqa
                ok = False
            if not ok:
                ctx.violation("eval", "C16/hook/eval", "the display hook of install() shows %r as\n%s" % (v, shown))
                return
            if OC.width(repr(v)) <= spec["w1"] and shown.rstrip("\n") != repr(v):
                ctx.violation("single-line", "C16/hook/not-repr", "repr(%r) fits in %d cells but the display hook of install() shows\n%s" % (v, spec["w1"], shown))
                return
            ctx.cls("display-hook")
        nested_changed = False
        for where, sub in spec["edits"]:
            x = build(sub)
            target = v
            if where == "nested":
                inner = [c for c in (v.values() if isinstance(v, dict) else v) if isinstance(c, (list, dict))]
                if inner:
                    target = inner[0]
                    nested_changed = True
            if isinstance(target, dict):
                target["k%d" % len(target)] = x
            else:
                target.append(x)
        out = show(spec["w2"], "again after %d edit(s)" % len(spec["edits"]))
        if out is None:
            return
        if nested_changed and out.count("\n") > 1:
            ctx.nontrivial = True
        ctx.cls("nested-edit" if nested_changed else "root-edit")


class OptimisedInterpreter(Part):
    name = "optimised-interpreter"
    rule = ("batches of 12 round-trip cases (same generator as 'roundtrip', values with shared sub-objects included) checked in a separate interpreter started with "
            "python -O (assert statements compiled away): the same clauses must hold there; non-trivial = the batch has a value in which one container object occurs twice")
    budget = {"quick": (8, 4), "thorough": (16, 40)}
    chunk = 4

    def strategy(self, tier):
        return st.lists(RoundTrip().strategy(tier), min_size=12, max_size=12).map(lambda cases: {"cases": cases})

    def check(self, spec, ctx):
        import json
        import os
        import subprocess
        import sys

        here = os.path.dirname(os.path.dirname(os.path.abspath(__file__)))
        p = subprocess.run([sys.executable, "-O", "-B", os.path.join(here, "optimised_c16.py")], input=json.dumps(spec["cases"]), stdout=subprocess.PIPE, stderr=subprocess.PIPE, text=True, timeout=300,
                           env=dict(os.environ, PYTHONHASHSEED="0"))
        if p.returncode != 0:
            raise RuntimeError("optimised_c16.py failed: %s" % p.stderr[-600:])
        res = json.loads(p.stdout.strip().splitlines()[-1])
        if res["debug"]:
            raise RuntimeError("the helper interpreter was not optimised")
        for case, vs in zip(spec["cases"], res["results"]):
            for clause, sig, detail in vs:
                ctx.violation(clause, "C16/optimised/" + sig.split("/", 1)[-1], "under python -O: " + detail)
                return
        if '"ref"' in json.dumps(spec["cases"]):
            ctx.nontrivial = True
            ctx.cls("shared-sub-object")


PARTS = [RoundTrip(), Abbrev(), Rerender(), OptimisedInterpreter()]
