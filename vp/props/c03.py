"""C03 - the ANSI stream written means exactly what the styled segments say."""
import io
from hypothesis import strategies as st

from ..core import Part, sut
from ..gen import styles as GS, chars as GC
from ..oracles import sgr as SGR

PROP_ID = "C03"
LEVEL = "exploration"
RULE = "Hypothesis: segment/control histories x print options (cut at line ends or not) x ordered pair of colour systems sharing the same Style objects x no_color x terminal x legacy_windows; one Style rendering several multi-line texts directly; oracle = independent SGR/OSC-8 interpreter"
ASSUMPTIONS = [
    "the expected colour after down-conversion is Color.downgrade(system) itself (its correctness is C18's subject); None/unset and 'default' are the same terminal state",
    "segment text is free of ESC and C0 controls other than newline (control codes go through Console.control/bell/clear/show_cursor)",
    "the console is wide enough (1000 cells) that nothing is wrapped or cropped; style of a newline is unobservable",
    "Style objects are created fresh per case and shared by the two consoles of the pair (real programs share styles between consoles via Style.parse's cache)",
]

SYSTEMS = [None, "standard", "256", "truecolor", "windows"]
DEPTH = {None: 0, "standard": 1, "windows": 1, "256": 2, "truecolor": 3}
CS_ENUM = {"standard": "STANDARD", "256": "EIGHT_BIT", "truecolor": "TRUECOLOR", "windows": "WINDOWS"}
BLANKS = " " + GC.NBSP + GC.IDEO_SPACE + "\u2003"  # visible cells that str.isspace() / str.strip() treat as white space: underline, background, reverse and links show on them
CONTROLS = ["bell", "clear", "clear_nohome", "hide_cursor", "show_cursor", "raw_control"]


def seg_text():
    alpha = st.one_of(st.sampled_from(GC.NARROW_ASCII + GC.PUNCT), st.sampled_from(GC.NARROW_ASCII), st.just(" "), st.sampled_from(GC.WIDE), st.sampled_from(GC.ZERO), st.just("\n"), st.sampled_from(GC.LATIN1),
                      st.sampled_from(BLANKS))
    return st.text(alpha, min_size=0, max_size=8)


def item():
    negative = st.sampled_from([{"attrs": {"bold": False}, "color": None, "bgcolor": None, "link": None}, {"attrs": {"italic": False, "underline": False}, "color": None, "bgcolor": None, "link": None},
                                {"attrs": {"bold": False}, "color": None, "bgcolor": None, "link": "https://n.example"}])
    # other ways of deriving a style from one that has already been written: update_link / without_color / copy
    derive = st.sampled_from([{"derive": "update_link", "link": "https://other.example/x"}, {"derive": "update_link", "link": None}, {"derive": "without_color"}, {"derive": "copy"}])
    plus = st.one_of(st.none(), st.none(), st.none(), negative, st.sampled_from(GS.PALETTE), GS.style_spec(max_attrs=3), derive, derive)
    seg = st.builds(lambda t, s, p: {"t": t, "s": s, "plus": p}, seg_text(), st.one_of(st.none(), GS.style_spec(), GS.style_spec(), st.sampled_from(GS.PALETTE)), plus)
    # print options that decide how the rendered segments reach the buffer (cut at line ends and cropped, or handed over as the renderable yielded them);
    # at 1000 cells none of them changes what is visible
    opts = st.sampled_from([None, None, None, {"soft_wrap": True}, {"soft_wrap": True}, {"crop": False}, {"crop": False, "no_wrap": True, "overflow": "ignore"}, {"no_wrap": True}, {"soft_wrap": False}])
    pr = st.builds(lambda segs, route, outer, o: ["print", segs, route, outer if route.endswith("outer") else None, o], st.lists(seg, min_size=1, max_size=6),
                   st.sampled_from(["raw", "raw", "text", "print_style", "lazy_outer", "text_outer"]), st.sampled_from(GS.PALETTE + [{"attrs": {"bold": True, "italic": True}, "color": None, "bgcolor": None, "link": None}]), opts)
    ctl = st.sampled_from(CONTROLS).map(lambda k: ["ctl", k])
    return st.one_of(pr, pr, pr, ctl)


class TtyFile(io.StringIO):
    def __init__(self, tty):
        super().__init__()
        self._tty = bool(tty)

    def isatty(self):
        return self._tty


class Raw:
    def __init__(self, segs):
        self.segs = segs

    def __rich_console__(self, console, options):
        yield from self.segs


class Lazy:
    """Builds the style of every segment while it is rendered (no other reference keeps the styles alive); unstyled new lines in between."""

    def __init__(self, items):
        self.items = items  # (text, style spec or None)

    def __rich_console__(self, console, options):
        from rich.segment import Segment

        for text, sp in self.items:
            yield Segment(text, GS.build_style(sp) if sp else None)
            yield Segment("\n")


class Stream(Part):
    name = "stream"
    rule = ("1-5 print/control items (1-6 segments each, text over narrow/wide/zero-width/newline, style over 13 tri-state attributes x 6 colour forms "
            "x link, or None; text also over blanks that strip() removes: space, NBSP, ideographic and em space; routes: raw Segment renderable - its segments may span several "
            "lines -, Text.assemble, str with print(style=); each print with options {default, soft_wrap, crop=False, no_wrap, overflow='ignore'} that decide whether the segments "
            "are cut at line ends before they are written, and Console(soft_wrap=) ) x ordered pair of {None, standard, 256, truecolor, "
            "windows} x no_color x force_terminal x legacy_windows; every visible character, blanks included, is compared; non-trivial = some segment has >=2 attributes and both colours, or a link, or the "
            "pair has different colour depth with a coloured segment")
    budget = {"quick": (16, 800), "thorough": (16, 12000)}

    def strategy(self, tier):
        return st.builds(
            lambda items, a, b, nc, term, lw, rec, env, pg, sw: {"items": items, "systems": [a, b], "no_color": nc if env is None else env[1], "no_color_arg": None if env is None else env[0], "env_no_color": False if env is None else env[2],
                                                            "terminal": term, "legacy": lw, "record": rec, "pager": pg, "soft_wrap": sw},
            st.lists(item(), min_size=1, max_size=5),
            st.sampled_from(SYSTEMS), st.sampled_from(SYSTEMS),
            st.sampled_from([False, False, False, True]), st.sampled_from([True, True, False, [1, 0], [0, 1], [1, 1], [0, 0]]), st.sampled_from([False, False, False, True]), st.sampled_from([False, False, True]),
            # (no_color argument, effective setting, NO_COLOR in the environment): an explicit argument wins over the environment, None means "look at the environment"
            st.sampled_from([None, None, None, [None, True, True], [None, False, False], [False, False, True], [True, True, False], [False, False, False], [True, True, True]]),
            # everything is written inside "with console.pager(pager, styles=, links=)": the stream is what the pager is shown, nothing reaches the file
            st.sampled_from([None, None, None, None, None, {"styles": True, "links": True}, {"styles": True, "links": False}, {"styles": False, "links": False}]),
            # Console(soft_wrap=True): the default of print(soft_wrap=None)
            st.sampled_from([False, False, False, False, True]),
        )

    def check(self, spec, ctx):
        from rich.console import Console
        from rich.segment import Segment
        from rich.text import Text
        from rich.color import Color, ColorSystem

        # build every style once; both consoles see the same objects
        built = []
        for it in spec["items"]:
            if it[0] == "print":
                built.append([(sg["t"], sut(GS.build_style, sg["s"]) if sg["s"] else None, sg["s"]) for sg in it[1]])
            else:
                built.append(None)
        has_color = any(s and (s["color"] or s["bgcolor"]) for it in spec["items"] if it[0] == "print" for s in [x["s"] for x in it[1]])
        rich_seg = False
        has_link = False
        for it in spec["items"]:
            if it[0] == "print":
                for s in it[1]:
                    sp = s["s"]
                    if sp and s["t"].strip("\n"):
                        if sum(1 for v in sp["attrs"].values() if v) >= 2 and sp["color"] and sp["bgcolor"]:
                            rich_seg = True
                        if sp["link"]:
                            has_link = True
        a, b = spec["systems"]
        if rich_seg or has_link or (DEPTH[a] != DEPTH[b] and has_color and a and b):
            ctx.nontrivial = True
        if DEPTH[a] != DEPTH[b]:
            ctx.cls("depth-changing-pair")
        if has_link:
            ctx.cls("link")
        for order, system in enumerate(spec["systems"]):
            mode = spec["terminal"]
            if isinstance(mode, bool):
                files, force, terms = [io.StringIO()], mode, [mode]
            else:
                # the console finds out by itself whether its file is a terminal, and the file is replaced half-way (console.file = ...)
                files, force, terms = [TtyFile(mode[0]), TtyFile(mode[1])], None, [bool(mode[0]), bool(mode[1])]
                ctx.cls("file-replaced")
            f = files[0]
            if "no_color_arg" in spec and (spec["no_color_arg"] is not None or spec.get("env_no_color")):
                con = sut(Console, file=f, color_system=system, force_terminal=force, no_color=spec["no_color_arg"], legacy_windows=spec["legacy"], width=1000, record=spec.get("record", False),
                          soft_wrap=bool(spec.get("soft_wrap")), _environ={"NO_COLOR": "1"} if spec.get("env_no_color") else {})
                ctx.cls("no_color-arg-%s-env-%s" % (spec["no_color_arg"], spec.get("env_no_color")))
            else:
                con = sut(Console, file=f, color_system=system, force_terminal=force, no_color=spec["no_color"], legacy_windows=spec["legacy"], width=1000, record=spec.get("record", False), soft_wrap=bool(spec.get("soft_wrap")), _environ={})
            expected = []  # ("ch", c, attrs, fg, bg, link) | ("ctl", text)
            term_now = terms[0]
            switch_at = (len(spec["items"]) + 1) // 2 if len(files) == 2 else None
            pg = spec.get("pager") if isinstance(mode, bool) else None
            shown = []
            if pg:
                class ShowsNothing:
                    def show(self, content):
                        shown.append(content)

                pager_cm = sut(con.pager, ShowsNothing(), styles=pg["styles"], links=pg["links"])
                sut(pager_cm.__enter__)
                ctx.cls("through-pager-styles-%s-links-%s%s" % (pg["styles"], pg["links"], "-recording" if spec.get("record") else ""))
            for idx, (it, segs) in enumerate(zip(spec["items"], built)):
                if idx == switch_at:
                    con.file = files[1]
                    term_now = terms[1]
                if it[0] == "ctl":
                    kind = it[1]
                    if kind == "bell":
                        sut(con.bell)
                        text = "\x07"
                    elif kind == "clear":
                        sut(con.clear)
                        text = "\x1b[2J\x1b[H"
                    elif kind == "clear_nohome":
                        sut(con.clear, home=False)
                        text = "\x1b[2J"
                    elif kind in ("hide_cursor", "show_cursor"):
                        sut(con.show_cursor, kind == "show_cursor")
                        text = ("\x1b[?25h" if kind == "show_cursor" else "\x1b[?25l") if (term_now and not spec["legacy"]) else ""
                    else:
                        sut(con.control, "\x1b[1A\x1b[2K")
                        text = "\x1b[1A\x1b[2K"
                    if term_now and text:
                        expected.append(("ctlseq", text))
                    continue
                route = it[2]
                kw = dict(it[4] or {}) if len(it) > 4 else {}
                if kw or spec.get("soft_wrap"):
                    ctx.cls("print-options-" + ("+".join("%s=%s" % kv for kv in sorted(kw.items())) or "none") + ("-console-soft_wrap" if spec.get("soft_wrap") else ""))
                    if any("\n" in sg["t"] and sg["t"].strip("\n") for sg in it[1]):
                        ctx.cls("multi-line-segment-with-print-options")
                if route == "raw" and any(sg.get("plus") is not None and sg["s"] for sg in it[1]):
                    # "derived" history: write each segment on its own, then build base + plus *afterwards* (the base's codes are cached by then)
                    # and write text in the derived style: it must carry its own codes
                    styled = []
                    for (t, base, sp), sg in zip(segs, it[1]):
                        sut(con.print, Raw([Segment(t, base)]), end="", **kw)
                        styled.append((t, sp))
                        if sg.get("plus") is not None and base is not None:
                            plus = sg["plus"]
                            if "derive" in plus:
                                if plus["derive"] == "update_link":
                                    derived = sut(base.update_link, plus["link"])
                                    dspec = dict(sp, link=plus["link"])
                                elif plus["derive"] == "without_color":
                                    derived = sut(lambda: base.without_color)
                                    dspec = dict(sp, color=None, bgcolor=None)
                                else:
                                    derived = sut(base.copy)
                                    dspec = dict(sp)
                                ctx.cls("derived-" + plus["derive"])
                            else:
                                derived = sut(lambda: base + GS.build_style(plus))
                                dspec = GS.merge(sp, plus)
                            sut(con.print, Raw([Segment(t or "d", derived)]), end="", **kw)
                            styled.append((t or "d", dspec))
                    ctx.cls("derived-after-write")
                elif route == "raw":
                    sut(con.print, Raw([Segment(t, s) for t, s, _ in segs]), end="", **kw)
                    styled = [(t, sp) for t, _, sp in segs]
                elif route == "lazy_outer":
                    outer = it[3]
                    sut(con.print, Lazy([(t, sp) for t, _, sp in segs]), end="", style=GS.build_style(outer), **kw)
                    styled = []
                    for t, _, sp in segs:
                        styled.append((t, GS.merge(outer, sp) if sp else outer))
                        styled.append(("\n", outer))
                    ctx.cls("styles-built-while-rendering")
                elif route == "text_outer":
                    outer = it[3]
                    # the text may have a base style that only switches attributes off; pieces styled the same way overlap it (base + span are combined while rendering)
                    base = [None, {"attrs": {"bold": False}, "color": None, "bgcolor": None, "link": None}, {"attrs": {"italic": False, "underline": False}, "color": None, "bgcolor": None, "link": None}][len(segs) % 3]
                    neg = {"attrs": {"italic": False}, "color": None, "bgcolor": None, "link": None}
                    pieces = [(t, s, sp) if (sp is not None or base is None) else (t, GS.build_style(neg), neg) for t, s, sp in segs]
                    sut(con.print, Text.assemble(*[(t, s) if s is not None else t for t, s, _ in pieces], end="", style=GS.build_style(base) if base else ""), end="", style=GS.build_style(outer), **kw)
                    styled = [(t, GS.merge(outer, base, sp)) for t, _, sp in pieces]
                    ctx.cls("text-under-an-outer-style")
                elif route == "text":
                    sut(con.print, Text.assemble(*[(t, s) if s is not None else t for t, s, _ in segs], end=""), end="", **kw)
                    styled = [(t, sp) for t, _, sp in segs]
                else:
                    t0, s0, sp0 = segs[0]
                    sut(con.print, t0, style=s0, end="", markup=False, highlight=False, emoji=False, **kw)
                    styled = [(t0, sp0)]
                    if route == "print_style" and t0 == "":
                        styled = [("", None)]
                for t, sp in styled:
                    if system is None or sp is None or (pg and not pg["styles"]):
                        st_ = (frozenset(), SGR.DEFAULT, SGR.DEFAULT, None)
                    else:
                        attrs = frozenset(k for k, v in sp["attrs"].items() if v)
                        cs = ColorSystem[CS_ENUM[system]]
                        fg = bg = SGR.DEFAULT
                        if not spec["no_color"]:
                            if sp["color"]:
                                fg = self.canon(Color.parse(sp["color"]).downgrade(cs))
                            if sp["bgcolor"]:
                                bg = self.canon(Color.parse(sp["bgcolor"]).downgrade(cs))
                        link = sp["link"] if not spec["legacy"] and not (pg and not pg["links"]) else None
                        st_ = (attrs, fg, bg, link)
                    for c in t:
                        expected.append(("ch", c) + st_)
            out = "".join(x.getvalue() for x in files)
            if pg:
                sut(pager_cm.__exit__, None, None, None)
                if out or files[0].getvalue():
                    ctx.violation("characters", "C03/pager/reached-file", "text written inside console.pager() reached the file: %r" % out[:100])
                    return
                if len(shown) != 1:
                    ctx.violation("characters", "C03/pager/shown", "the pager was shown %d contents" % len(shown))
                    return
                out = shown[0]
            for x, is_term in zip(files, terms):
                if not is_term:
                    try:
                        ev_x, _ = SGR.interpret(x.getvalue())
                    except SGR.BadStream:
                        ev_x = []
                    if any(e[0] == "ctl" for e in ev_x):
                        ctx.violation("not-terminal", "C03/notterminal/control", "control codes written to a file that is not a terminal: %r" % ([e for e in ev_x if e[0] == "ctl"][:3],))
                        return
            label = "%s(%s)" % (system, "first" if order == 0 else "after-" + str(spec["systems"][0]))
            # stream-level clauses
            if system is None and "\x1b" in out.replace("\x1b[2J", "").replace("\x1b[H", "").replace("\x1b[?25h", "").replace("\x1b[?25l", "").replace("\x1b[1A\x1b[2K", ""):
                ctx.violation("no-colour-system", "C03/nocolor-system/escape", "colour disabled but stream has an escape sequence: %r" % out[:200])
                return
            try:
                events, final = SGR.interpret(out)
            except SGR.BadStream as e:
                ctx.violation("stream", "C03/stream/malformed", "%s: %s in %r" % (label, e, out[:300]))
                return
            # flatten expected control sequences into the interpreter's event granularity
            exp = []
            for e in expected:
                if e[0] == "ctlseq":
                    exp.extend(x for x in SGR.interpret(e[1])[0])
                else:
                    exp.append(e)
            got = [e for e in events if not (e[0] == "ch" and e[1] == "\n")]
            want = [e for e in exp if not (e[0] == "ch" and e[1] == "\n")]
            got_nl = [i for i, e in enumerate(events) if e[0] == "ch" and e[1] == "\n"]
            if [e[1] for e in events if e[0] == "ch"] != [e[1] for e in exp if e[0] == "ch"]:
                ctx.violation("characters", "C03/chars/%s" % ("route-" + "+".join(sorted({it[2] for it in spec["items"] if it[0] == "print"}))),
                              "%s: visible characters %r, expected %r" % (label, "".join(e[1] for e in events if e[0] == "ch")[:120], "".join(e[1] for e in exp if e[0] == "ch")[:120]))
                return
            if len(got) != len(want):
                ctx.violation("controls", "C03/controls/count", "%s: events %r expected %r" % (label, got[:6], want[:6]))
                return
            for g, w in zip(got, want):
                if g[0] != w[0] or (g[0] == "ctl" and g[1] != w[1]):
                    ctx.violation("controls", "C03/controls/order", "%s: event %r where %r was expected" % (label, g, w))
                    return
                if g[0] == "ch" and tuple(g[2:]) != tuple(w[2:]):
                    which = [n for n, x, y in zip(("attrs", "fg", "bg", "link"), g[2:], w[2:]) if x != y]
                    if spec["no_color"] and ("fg" in which or "bg" in which):
                        sig = "C03/nocolor/colour-emitted"
                    elif order == 1 and ("fg" in which or "bg" in which):
                        sig = "C03/style/colour-second-system"
                    else:
                        sig = "C03/style/" + "+".join(which)
                    ctx.violation("style", sig, "%s: character %r shown with %r, printed with %r (differs in %s); stream %r" % (label, g[1], g[2:], w[2:], which, out[:240]))
                    return
            if final != (frozenset(), SGR.DEFAULT, SGR.DEFAULT, None):
                ctx.violation("leak", "C03/leak/final-state", "%s: terminal state after the stream is %r" % (label, final))
                return

    @staticmethod
    def canon(c):
        t = c.type.name
        if t == "DEFAULT":
            return SGR.DEFAULT
        if t == "TRUECOLOR":
            return ("rgb",) + tuple(c.triplet)
        return ("idx", c.number)


class Render(Part):
    name = "render"
    rule = ("one Style object (13 tri-state attributes x 6 colour forms x link) renders 1-4 texts in turn with Style.render(text, color_system=, legacy_windows=) - the call "
            "that turns every buffered segment into characters; each text over narrow/wide/zero-width characters, blanks (space, NBSP, ideographic and em space, tab), "
            "new lines and carriage returns, 0-12 characters, any colour system per call (so the codes cached by an earlier call meet a different system), written between "
            "an unstyled prefix and suffix; the whole stream is read by the SGR/OSC-8 interpreter: same characters in order (carriage returns as controls), every visible "
            "character of a rendered text - blanks included, wherever they stand relative to line ends - shows exactly the style's attributes, down-converted colours "
            "and link (no link under legacy_windows), prefix/suffix/in-between text shows nothing, the final state is the reset state, and with color_system=None the text "
            "comes back unchanged; non-trivial = some call has a colour system, a text with a visible character and a style with an attribute switched on, a colour or a link")
    budget = {"quick": (8, 500), "thorough": (16, 8000)}

    def strategy(self, tier):
        alpha = st.one_of(st.sampled_from(GC.NARROW_ASCII + GC.PUNCT), st.sampled_from(GC.NARROW_ASCII), st.sampled_from(BLANKS + "\t"), st.sampled_from(BLANKS + "\t"), st.sampled_from(GC.WIDE),
                          st.sampled_from(GC.ZERO), st.just("\n"), st.just("\n"), st.sampled_from(["\r\n", "\r"]), st.sampled_from(GC.LATIN1))
        text = st.lists(alpha, min_size=0, max_size=12).map("".join)
        plain = st.text(st.sampled_from("ab> <\n "), max_size=3)
        call = st.builds(lambda t, sysname, lw, sep: {"t": t, "system": sysname, "legacy": lw, "sep": sep}, text, st.sampled_from(SYSTEMS + ["truecolor", "standard"]), st.sampled_from([False, False, False, True]), plain)
        return st.builds(lambda sp, calls, pre: {"s": sp, "calls": calls, "pre": pre}, st.one_of(GS.style_spec(), GS.style_spec(), st.sampled_from(GS.PALETTE)), st.lists(call, min_size=1, max_size=4), plain)

    def check(self, spec, ctx):
        from rich.color import Color, ColorSystem

        sp = spec["s"]
        style = sut(GS.build_style, sp)
        attrs = frozenset(k for k, v in sp["attrs"].items() if v)
        shows = bool(attrs or sp["color"] or sp["bgcolor"] or sp["link"])
        plain_state = (frozenset(), SGR.DEFAULT, SGR.DEFAULT, None)
        out = [spec["pre"]]
        want = [("ch", c) + plain_state for c in spec["pre"]]
        for call in spec["calls"]:
            system = call["system"]
            cs = ColorSystem[CS_ENUM[system]] if system else None
            piece = sut(style.render, call["t"], color_system=cs, legacy_windows=call["legacy"])
            if not isinstance(piece, str):
                ctx.violation("stream", "C03/render/not-a-string", "Style.render returned %r" % (piece,))
                return
            if cs is None and piece != call["t"]:
                ctx.violation("no-colour-system", "C03/render/no-system-changed", "Style.render(%r, color_system=None) of style %r returned %r" % (call["t"], sp, piece))
                return
            out.append(piece)
            out.append(call["sep"])
            if cs is None:
                state = plain_state
            else:
                fg = Stream.canon(Color.parse(sp["color"]).downgrade(cs)) if sp["color"] else SGR.DEFAULT
                bg = Stream.canon(Color.parse(sp["bgcolor"]).downgrade(cs)) if sp["bgcolor"] else SGR.DEFAULT
                state = (attrs, fg, bg, sp["link"] if not call["legacy"] else None)
                if shows and any(c not in "\r\n" for c in call["t"]):
                    ctx.nontrivial = True
            for c in call["t"]:
                want.append(("ctl", c) if c == "\r" else ("ch", c) + state)
            want.extend(("ch", c) + plain_state for c in call["sep"])
            if "\n" in call["t"].strip("\n"):
                ctx.cls("multi-line-text")
            if call["t"] != call["t"].strip() and call["t"].strip():
                ctx.cls("text-with-outer-white-space")
        if len({c["system"] for c in spec["calls"]}) > 1:
            ctx.cls("one-style-several-systems")
        stream = "".join(out)
        try:
            events, final = SGR.interpret(stream)
        except SGR.BadStream as e:
            ctx.violation("stream", "C03/render/malformed", "%s in %r" % (e, stream[:300]))
            return
        if [e[:2] for e in events] != [e[:2] for e in want]:
            ctx.violation("characters", "C03/render/chars", "style %r, calls %r: the stream reads %r, expected %r; stream %r" % (
                sp, spec["calls"], [e[1] for e in events][:40], [e[1] for e in want][:40], stream[:240]))
            return
        for i, (g, w) in enumerate(zip(events, want)):
            if g[0] == "ch" and g[1] != "\n" and tuple(g[2:]) != tuple(w[2:]):
                which = [n for n, x, y in zip(("attrs", "fg", "bg", "link"), g[2:], w[2:]) if x != y]
                leak = w[2:] == plain_state
                ctx.violation("leak" if leak else "style", "C03/render/%s" % ("leak" if leak else "+".join(which)), "style %r, calls %r: character %d %r shown with %r, %s %r (differs in %s); stream %r" % (
                    sp, spec["calls"], i, g[1], g[2:], "expected" if leak else "rendered with", w[2:], which, stream[:240]))
                return
        if final != plain_state:
            ctx.violation("leak", "C03/render/final-state", "style %r, calls %r: terminal state after the stream is %r; stream %r" % (sp, spec["calls"], final, stream[:240]))
            return


class Bulk(Part):
    name = "bulk"
    rule = ("one print() of a renderable that yields many styled line segments - total size around 32Ki / 64Ki / 96Ki characters and beyond, lines of 10 to 40000 characters - "
            "through each colour system: the visible characters written are exactly those of the segments, in order, every line complete; the style of a sample of lines is "
            "checked with the SGR interpreter; non-trivial = the written stream is longer than 32767 characters")
    budget = {"quick": (8, 12), "thorough": (16, 150)}
    chunk = 12

    def strategy(self, tier):
        total = st.one_of(st.integers(32000, 34000), st.integers(64500, 67000), st.integers(97000, 100000), st.integers(1000, 250000))
        return st.builds(lambda t, ll, sysname, sty, nl: {"total": t, "line": ll, "system": sysname, "styles": sty, "final_newline": nl}, total, st.sampled_from([10, 50, 50, 200, 2000, 40000]),
                         st.sampled_from([s for s in SYSTEMS]), st.lists(st.integers(0, len(GS.PALETTE) - 1), min_size=1, max_size=3), st.booleans())

    def check(self, spec, ctx):
        from rich.console import Console
        from rich.segment import Segment

        styles = [GS.build_style(GS.PALETTE[i]) for i in spec["styles"]]
        n = max(1, spec["total"] // (spec["line"] + 8))
        segs = []
        lines = []
        for i in range(n):
            text = "L%06d " % i + "x" * spec["line"]
            lines.append(text)
            segs.append(Segment(text, styles[i % len(styles)]))
            if i < n - 1 or spec["final_newline"]:
                segs.append(Segment("\n"))
        f = io.StringIO()
        con = sut(Console, file=f, color_system=spec["system"], force_terminal=True, legacy_windows=False, width=50000, _environ={})
        sut(con.print, Raw(segs), end="")
        out = f.getvalue()
        vis = SGR.visible(out)
        want = "\n".join(lines) + ("\n" if spec["final_newline"] else "")
        if vis != want:
            got_lines = vis.split("\n")
            missing = [l[:7] for l in lines if l not in set(got_lines)][:5]
            ctx.violation("characters", "C03/bulk/lost", "a print of %d lines of %d characters (%d characters written, colour system %r): %d visible characters instead of %d; first lines missing or incomplete: %r" % (
                n, spec["line"] + 7, len(out), spec["system"], len(vis), len(want), missing))
            return
        if spec["system"] is not None:
            # sample: first, last and a middle line keep their style
            raw_lines = out.split("\n")
            for i in sorted({0, n // 2, n - 1}):
                ev, _ = SGR.interpret(raw_lines[i])
                chars = [e for e in ev if e[0] == "ch"]
                if len({tuple(e[2:]) for e in chars}) > 1:
                    ctx.violation("style", "C03/bulk/style", "line %d of a bulk print is not uniformly styled: %r" % (i, raw_lines[i][:80]))
                    return
        if len(out) > 32767:
            ctx.nontrivial = True
        ctx.cls("written>32767" if len(out) > 32767 else "written<=32767")


PARTS = [Stream(), Bulk(), Render()]
