"""C11 - console output is thread-safe under every interleaving (harness-owned scheduler)."""
import io
import time
from hypothesis import strategies as st

from ..core import Part, sut
from ..oracles import sgr as SGR
from ..oracles.vt import VT, VTError
from ..oracles.sched import Sched, CoopRLock, CoopEvent, Deadlock, HarnessTimeout

PROP_ID = "C11"
LEVEL = "exploration"
RULE = "thread programs x schedules run by a deterministic scheduler that serialises real threads (preemption at every traced line of console/live/live_render/progress/file_proxy, every lock operation, every file write)"
ASSUMPTIONS = [
    "preemption points: every executed line of rich/console.py, live.py, live_render.py, progress.py, file_proxy.py, every acquire/release of the (proxied) console, record, "
    "live and progress locks and every file write/flush; C-level calls (list.extend, io writes) are atomic under the GIL and code of other modules is not preempted",
    "explicit refresher programs run the same refresh() call as the auto-refresh thread; with auto=True the display's own _RefreshThread.run is a scheduled worker whose timed wait "
    "alternately expires at once and gives way to another thread (real timers would put wall-clock time into the schedule), and ends when no other thread is left",
    "programs marked caches=cold/full start with the library's function caches emptied / the 4096-entry cell-width cache at capacity, and are also preempted at every line of cells.py, "
    "_lru_cache.py, palette.py and color.py; styled programs print markers in distinct RGB colours on a 16-colour console",
    "programs that capture are run on a console that is not recording (DESIGN 7.10); log() is used with log_time=False and log_path=False",
    "every print/log call carries a unique marker, so a write identifies its call; text is single-width ASCII",
    "known finding F2: a print preempted between the render hook and its write while another thread redraws a frame of a different height - screen mismatches under such "
    "schedules are attributed to F2 (the exposure is detected from the schedule itself); every other clause is still checked under those schedules",
]


class RecFile(io.StringIO):
    def __init__(self, sched_ref):
        super().__init__()
        self.writes = []  # (worker index or -1, text)
        self.sched_ref = sched_ref

    def write(self, t):
        s = self.sched_ref[0]
        idx = -1
        if s is not None and s.cur is not None and s.active:
            s.yield_point(("write",))
            idx = s.cur.idx
            w = s.cur
            if getattr(w, "in_window", False):
                w.in_window = False
            # another thread wrote while some thread was parked inside its hook-to-write window
            for other in s.workers:
                if other is not w and getattr(other, "in_window", False):
                    other.exposed = True
        self.writes.append((idx, t))
        return super().write(t)

    def flush(self):
        s = self.sched_ref[0]
        if s is not None and s.cur is not None and s.active:
            s.yield_point(("flush",))


def marker_text(mid, nlines):
    return "\n".join("M%02d%s" % (mid, "abcd"[k]) for k in range(nlines))


def traced_files():
    import rich.console
    import rich.live
    import rich.live_render
    import rich.progress
    import rich.file_proxy

    return {rich.console.__file__, rich.live.__file__, rich.live_render.__file__, rich.progress.__file__, rich.file_proxy.__file__}


def deep_files():
    """Modules with process-wide state that rendering touches outside every lock: the cell-width cache and the colour matching tables."""
    import rich.cells
    import rich._lru_cache
    import rich.palette
    import rich.color

    return {rich.cells.__file__, rich._lru_cache.__file__, rich.palette.__file__, rich.color.__file__}


def clear_shared_caches():
    """Empty every function cache of the library (lru_cache wrappers and the cell-width LRU), so that the scheduled section computes everything itself."""
    import sys as _sys
    import rich.cells

    for name, mod in list(_sys.modules.items()):
        if not (name == "rich" or name.startswith("rich.")) or mod is None:
            continue
        for obj in list(vars(mod).values()):
            targets = [obj]
            if isinstance(obj, type):
                targets = [v.__func__ if isinstance(v, (classmethod, staticmethod)) else v for v in vars(obj).values()]
            for t in targets:
                cc = getattr(t, "cache_clear", None)
                if callable(cc):
                    try:
                        cc()
                    except Exception:  # noqa
                        pass
    rich.cells.cell_len.__defaults__[0].clear()


STYLED_COLOURS = ["#a00a0a", "#0a0aa0", "#0aa00a", "#c8c800", "#7f7f7f", "#ff00ff"]


class BigBlock:
    """A renderable that yields many segments: n lines, each carrying the marker (a print of this must still reach the file in one piece)."""

    def __init__(self, mid, nlines):
        self.mid = mid
        self.nlines = nlines

    def __rich_console__(self, console, options):
        from rich.segment import Segment

        for i in range(self.nlines):
            yield Segment("M%02da" % self.mid)
            yield Segment("%d\n" % (i % 10))


def marker_renderable(mid, nlines, styled):
    if not styled:
        return marker_text(mid, nlines)
    from rich.text import Text

    return Text(marker_text(mid, nlines), style=STYLED_COLOURS[mid % len(STYLED_COLOURS)])


def run_program(prog, preempt, tape, problems):
    """Execute a thread program under a schedule. Appends (clause, sig, detail) to problems. Returns (steps, switches_in_rich, exposed)."""
    from rich.console import Console
    from rich.live import Live
    from rich.progress import Progress, TextColumn
    from rich.text import Text
    from rich.console import RenderGroup

    sched_ref = [None]
    f = RecFile(sched_ref)
    W, H = 30, 12
    styled = bool(prog.get("styled"))
    deep = prog.get("caches") in ("cold", "full")
    auto = bool(prog.get("auto"))
    transient = bool(prog.get("transient"))
    kw = dict(width=W, height=H, force_terminal=True, color_system="standard" if styled else None, legacy_windows=False, log_time=False, log_path=False, _environ={})
    con = Console(file=f, record=prog.get("record", False), **kw)
    twin = Console(file=io.StringIO(), **kw)
    s = Sched(dict((int(a), int(b)) for a, b in preempt), files=traced_files() | (deep_files() if deep else set()), tape=tape)
    if prog.get("opcodes"):
        import rich.live_render

        s.opcode_files = {rich.live_render.__file__}
    sched_ref[0] = s
    if isinstance(prog.get("_kinds"), list):
        s.kinds = prog["_kinds"]
    con._lock = CoopRLock(s, "console")
    con._record_buffer_lock = CoopRLock(s, "record")
    display = None
    kind = prog.get("display")
    restore = []
    if auto:
        # the display's own refresh thread runs as a scheduled worker: its Event is cooperative, start() registers run() with the scheduler, join() waits through it
        import rich.live as RL
        import rich.progress as RP

        for mod, attr in ((RL, "live"), (RP, "progress")):
            RT = mod._RefreshThread
            restore.append((RT, RT.__init__, RT.start, RT.join))

            def init(self, owner, refresh_per_second=10, _attr=attr):
                setattr(self, _attr, owner)
                self.refresh_per_second = refresh_per_second
                self.done = CoopEvent(s, "refresh-done", expire_when_alone=True)

            RT.__init__ = init
            RT.start = lambda self: setattr(self, "_vp_worker", s.spawn(self.run, "refresher") if s.active else s.add(self.run, "refresher"))
            RT.join = lambda self, timeout=None: s.join(self._vp_worker)
    import sys as _sys

    saved_std = (_sys.stdout, _sys.stderr)
    try:
        return _run_program(prog, problems, s, sched_ref, f, con, twin, W, H, kind, auto, transient, styled, deep)
    finally:
        _sys.stdout, _sys.stderr = saved_std
        for RT, i, st_, j in restore:
            RT.__init__, RT.start, RT.join = i, st_, j


def _run_program(prog, problems, s, sched_ref, f, con, twin, W, H, kind, auto, transient, styled, deep):
    from rich.live import Live
    from rich.progress import Progress, TextColumn
    from rich.text import Text
    from rich.console import RenderGroup

    display = None
    if kind == "live":
        display = Live(RenderGroup(*[Text(l) for l in prog["frame0"]]), console=con, auto_refresh=auto, transient=transient, redirect_stdout=bool(prog.get("redirect")), redirect_stderr=False)
        display._lock = CoopRLock(s, "live")
    elif kind == "progress":
        display = Progress(TextColumn("{task.description} {task.completed:.0f}"), console=con, auto_refresh=auto, transient=transient, redirect_stdout=bool(prog.get("redirect")), redirect_stderr=False, get_time=lambda: 1.0)
        display._lock = CoopRLock(s, "progress")
        tid = display.add_task("job", total=100)
    if display is not None:
        orig_hook = display.process_renderables

        def hooked(renderables):
            # the F2 window opens when the hook starts (it fixes the erase sequence from the frame height of that moment) and closes at the thread's write
            if s.cur is not None and s.active:
                s.cur.in_window = True
            return orig_hook(renderables)

        display.process_renderables = hooked
        display.start()
    frame_state = {"lines": list(prog.get("frame0", [])), "progress": 0}
    expected_text = {}   # marker id -> text a single-threaded print writes
    captures = {}        # (thread, op index) -> (markers, result)
    exports = []         # results of clearing exports, in the order they completed
    calls = []           # (thread, kind, marker id) in program order per thread

    def body(ti, ops):
        def run():
            for oi, op in enumerate(ops):
                k = op[0]
                if k == "print":
                    con.print(marker_renderable(op[1], op[2], styled))
                elif k == "export":
                    # a clearing export from a thread: together with the final export it must account for every recorded line exactly once
                    if op[1] in ("save-text", "save-html"):
                        # the on-disk variants: what they saved is what a clearing export would have returned
                        import os as _os
                        import tempfile as _tempfile

                        fd, path = _tempfile.mkstemp(prefix="vp_c11_")
                        _os.close(fd)
                        try:
                            (con.save_text if op[1] == "save-text" else con.save_html)(path)
                            with open(path, encoding="utf-8") as fh:
                                exports.append(fh.read())
                        finally:
                            _os.unlink(path)
                    elif op[1] == "html-keep":
                        con.export_html(clear=False)   # an export that keeps the record: the record must be as it was, in the file's order
                    else:
                        exports.append(con.export_html(clear=True) if op[1] == "html" else con.export_text(clear=True))
                elif k == "big":
                    con.print(BigBlock(op[1], op[2]))
                elif k == "stdout":
                    import sys as _sys

                    from rich.file_proxy import FileProxy

                    if isinstance(_sys.stdout, FileProxy):
                        _sys.stdout.write("M%02da\n" % op[1])   # the display redirects sys.stdout to the console
                    else:
                        con.print("M%02da" % op[1])              # (the display was stopped meanwhile)
                elif k == "log":
                    con.log(marker_text(op[1], 1))
                elif k == "capture":
                    with con.capture() as cap:
                        for mid in op[1]:
                            con.print(marker_text(mid, 1))
                    captures[(ti, oi)] = (op[1], cap.get())
                elif k == "update":
                    display.update(RenderGroup(*[Text(l) for l in op[1]]), refresh=op[2])
                    frame_state["lines"] = list(op[1])
                elif k == "refresh":
                    display.refresh()
                elif k == "advance":
                    display.advance(tid, op[1])
                elif k == "stop":
                    display.stop()
                elif k == "start":
                    display.start()
                else:
                    raise AssertionError(op)
        return run

    for ti, ops in enumerate(prog["threads"]):
        for op in ops:
            if op[0] == "print":
                twin.file.seek(0)
                twin.file.truncate(0)
                twin.print(marker_renderable(op[1], op[2], styled))
                expected_text[op[1]] = twin.file.getvalue()
            elif op[0] == "log":
                twin.file.seek(0)
                twin.file.truncate(0)
                twin.log(marker_text(op[1], 1))
                expected_text[op[1]] = twin.file.getvalue()
            elif op[0] == "big":
                twin.file.seek(0)
                twin.file.truncate(0)
                twin.print(BigBlock(op[1], op[2]))
                expected_text[op[1]] = twin.file.getvalue()
            elif op[0] == "stdout":
                expected_text[op[1]] = "M%02da\n" % op[1]
            elif op[0] == "capture":
                for mid in op[1]:
                    twin.file.seek(0)
                    twin.file.truncate(0)
                    twin.print(marker_text(mid, 1))
                    expected_text[mid] = twin.file.getvalue()
        s.add(body(ti, ops), "T%d" % ti)
    if deep:
        import rich.cells

        clear_shared_caches()
        if prog["caches"] == "full":
            # a long-running process: the cell-width cache is at capacity, and what the first thread is about to measure is what it holds longest
            cache = rich.cells.cell_len.__defaults__[0]
            for op in prog["threads"][0]:
                if op[0] == "print":
                    twin.print(marker_renderable(op[1], op[2], styled))
                elif op[0] == "log":
                    twin.log(marker_text(op[1], 1))
            k = 0
            while len(cache) < cache.cache_size:
                rich.cells.cell_len("junk%05d" % k)
                k += 1
    pre_writes = len(f.writes)
    try:
        s.run(timeout=60)
    except Deadlock as e:
        problems.append(("deadlock", "C11/deadlock", "%s (schedule %r)" % (e, s.trace[:6])))
        return s.step, s.switch_in_rich, False
    except HarnessTimeout as e:
        raise
    exposed = any(getattr(w, "exposed", False) for w in s.workers)
    for w in s.workers:
        if w.exc is not None:
            problems.append(("exception", "C11/exception/%s" % type(w.exc).__name__, "%s raised %r (schedule %r)" % (w.name, w.exc, s.trace[:6])))
    if display is not None:
        try:
            display.stop()
        except Exception as e:  # noqa
            problems.append(("exception", "C11/exception/stop-%s" % type(e).__name__, "final stop() raised %r" % (e,)))
    writes = f.writes[pre_writes:]
    captured = set(m for (mids, _) in captures.values() for m in mids)
    # ---- every print/log call reaches the file contiguously, exactly once
    where = {}
    for wi, (tidx, text) in enumerate(writes):
        vis = SGR.visible(text) if "\x1b" in text else text
        for mid in expected_text:
            tag = "M%02d" % mid
            if tag in vis:
                where.setdefault(mid, []).append(wi)
    for mid, exp in expected_text.items():
        ws = where.get(mid, [])
        if mid in captured:
            if ws:
                problems.append(("capture", "C11/capture/leaked", "captured print M%02d reached the file (schedule %r)" % (mid, s.trace[:6])))
            continue
        if len(ws) != 1:
            problems.append(("contiguous", "C11/contiguous/%s" % ("lost" if not ws else "split-or-duplicated"), "print M%02d appears in %d writes (schedule %r)" % (mid, len(ws), s.trace[:6])))
            continue
        text = writes[ws[0]][1]
        if display is None and text != exp:
            problems.append(("contiguous", "C11/contiguous/content", "write for M%02d is %r, single-threaded it is %r (schedule %r)" % (mid, text, exp, s.trace[:6])))
        elif display is not None:
            vis = SGR.visible(text)
            if exp.strip("\n") not in vis:
                problems.append(("contiguous", "C11/contiguous/content", "write for M%02d shows %r, expected to contain %r" % (mid, vis, exp)))
    # ---- captures
    for (ti, oi), (mids, result) in captures.items():
        want = "".join(expected_text[m] for m in mids)
        if result != want:
            problems.append(("capture", "C11/capture/content", "capture of T%d returned %r, its own prints write %r (schedule %r)" % (ti, result, want, s.trace[:6])))
    # ---- record has the order of the file
    if prog.get("record") and not captures:
        import re

        vis_file = "".join(SGR.visible(t) if "\x1b" in t else t for _, t in f.writes)
        # a clearing export returns everything recorded since the previous one: the exports are blocks of the record. A thread may be preempted between taking its
        # block and returning, so the order in which the calls *returned* says nothing: the blocks are put in the order of the file by their first line
        file_markers = re.findall(r"M\d\d[a-d]", vis_file)
        pos = {m: i for i, m in enumerate(file_markers)}

        def first_pos(block):
            ms = re.findall(r"M\d\d[a-d]", block)
            return pos.get(ms[0], len(pos)) if ms else len(pos)

        rec = "".join(sorted(exports, key=first_pos)) + con.export_text()
        if display is None and not exports and not any(o[0] == "export" for ops in prog["threads"] for o in ops) and rec != vis_file:
            problems.append(("record", "C11/record/content", "export_text() %r differs from the file %r (schedule %r)" % (rec, vis_file, s.trace[:6])))
        elif re.findall(r"M\d\d[a-d]", rec) != re.findall(r"M\d\d[a-d]", vis_file):
            # with a display the frames are control output (not recorded for Progress); the printed lines must still come in the file's order
            problems.append(("record", "C11/record/order", "recorded lines %r, file order %r (schedule %r)" % (re.findall(r"M\d\d[a-d]", rec), re.findall(r"M\d\d[a-d]", vis_file), s.trace[:6])))
    # ---- live screen
    if display is not None:
        vt = VT(W, H)
        try:
            for _, t in f.writes:
                vt.feed(t)
        except VTError as e:
            problems.append(("screen", "C11/screen/stream", str(e)))
            return s.step, s.switch_in_rich, exposed
        order = sorted((ws[0], mid) for mid, ws in where.items() if len(ws) == 1 and mid not in captured)
        rows = []
        for _, mid in order:
            rows.extend(r.rstrip() for r in expected_text[mid].rstrip("\n").split("\n"))
        if kind == "live":
            # the frame stop() draws is the display's current renderable (the last update to land)
            final = [t.plain for t in display.renderable.renderables]
        else:
            final = None
        got = vt.screen()
        has_stop = any(op[0] == "stop" for ops in prog["threads"] for op in ops)
        printed_ok = got[:len(rows)] == rows
        frame_ok = True
        if final is not None:
            frame_ok = got[len(rows):] == [l for l in final if True] or (not any(final) and got[len(rows):] == [])
        else:
            tail = got[len(rows):]
            frame_ok = len(tail) == 1 and tail[0].startswith("job ")
        if transient:
            frame_ok = got[len(rows):] == []
        leftovers = [r for r in got if r.strip() and not r.lstrip().startswith("M")] if transient else []
        if has_stop:
            # a thread stopped the display mid-way: later prints follow the (then permanent) frame, the simple 'printed rows then frame' layout does not apply
            printed_ok = frame_ok = True
        if has_stop and leftovers and not exposed:
            # whatever the order of stop / start / redraw was: a transient display leaves nothing of its frames behind once it is finally stopped
            problems.append(("screen", "C11/screen/transient-remnant", "after the final stop of a transient display the screen still shows %r (schedule %r)" % (leftovers, s.trace[:6])))
        if not (printed_ok and frame_ok):
            sig = "C11/screen/print-vs-redraw-race" if exposed else "C11/screen/final"
            problems.append(("screen", sig, "final screen %r, expected printed rows %r then the last frame %r (schedule %r)" % (got, rows, final, s.trace[:6])))
        if not vt.cursor_visible:
            problems.append(("screen", "C11/screen/cursor-hidden", "cursor hidden after stop"))
        if con._render_hooks:
            problems.append(("screen", "C11/hooks/leaked", "%d render hooks left after stop" % len(con._render_hooks)))
    return s.step, s.switch_in_rich, exposed


PLAIN_PROGRAMS = [
    {"record": True, "threads": [[["print", 14, 1], ["print", 15, 1]], [["export", "html"], ["print", 16, 1]], [["export", "text"]]]},
    {"record": True, "threads": [[["print", 17, 1], ["print", 18, 1]], [["export", "html-keep"], ["print", 19, 1]]]},
    {"record": True, "threads": [[["print", 20, 1], ["print", 21, 1]], [["export", "save-text"], ["print", 22, 1]], [["export", "save-html"]]]},
    {"record": True, "threads": [[["print", 1, 1], ["print", 2, 2]], [["print", 3, 1], ["log", 4]]]},
    {"record": False, "threads": [[["capture", [5, 6]], ["print", 7, 1]], [["print", 8, 2], ["capture", [9]]]]},
    {"record": True, "threads": [[["log", 10]], [["print", 11, 3]], [["print", 12, 1], ["print", 13, 1]]]},
]
LIVE_PROGRAMS = [
    {"display": "live", "frame0": ["f0"], "threads": [[["print", 1, 1]], [["update", ["x", "y", "z"], True]]]},
    {"display": "live", "frame0": ["a", "b", "c"], "threads": [[["print", 2, 2], ["print", 3, 1]], [["update", ["q"], True], ["refresh"]]]},
    {"display": "live", "frame0": ["a", "b"], "record": True, "threads": [[["log", 4]], [["refresh"], ["stop"]], [["stop"]]]},
    {"display": "progress", "threads": [[["print", 5, 1], ["advance", 2]], [["refresh"], ["advance", 1], ["refresh"]]]},
]


RESTART_PROGRAMS = [
    # one thread stops the display while another starts it again and draws
    {"display": "live", "transient": True, "frame0": ["fa"], "threads": [[["stop"]], [["start"], ["refresh"], ["update", ["fb", "fc"], True]]]},
    {"display": "progress", "transient": True, "threads": [[["stop"]], [["start"], ["advance", 1], ["refresh"]]]},
    {"display": "live", "transient": True, "auto": True, "frame0": ["fa", "fb"], "threads": [[["stop"], ["start"]], [["print", 1, 1], ["refresh"]]]},
]
OPCODE_PROGRAMS = [
    # the frame renderable (live_render.py) is preempted between any two byte-code instructions: several reads of shared state inside one source line can be torn
    {"display": "progress", "opcodes": True, "threads": [[["print", 1, 1]], [["stop"]]]},
    {"display": "progress", "opcodes": True, "transient": True, "threads": [[["log", 2]], [["advance", 1], ["stop"]]]},
    {"display": "live", "opcodes": True, "frame0": ["fa", "fb"], "threads": [[["print", 1, 1]], [["update", ["x"], True], ["stop"]]]},
]
AUTO_PROGRAMS = [
    {"display": "progress", "auto": True, "transient": True, "threads": [[["print", 1, 1]], [["advance", 2], ["stop"]]]},
    {"display": "live", "auto": True, "frame0": ["a", "b"], "threads": [[["print", 2, 1], ["update", ["x"], False]], [["stop"]]]},
    {"display": "live", "auto": True, "transient": True, "frame0": ["a"], "threads": [[["log", 3]], [["update", ["p", "q"], True]]]},
    {"display": "progress", "auto": True, "threads": [[["stop"]], [["print", 4, 1], ["stop"]]]},
    {"display": "live", "auto": True, "transient": True, "frame0": ["a"], "threads": [[["stop"]], [["stop"]]]},
]
BIG_PROGRAMS = [
    # one print of more than 2048 segments beside a small one (coarse: preempted at lock operations and writes, and at every 40th traced line)
    {"coarse": 40, "threads": [[["big", 1, 1100]], [["print", 2, 1]]]},
    {"coarse": 40, "record": True, "threads": [[["print", 3, 1], ["big", 4, 1030]], [["log", 5]]]},
]
REDIRECT_PROGRAMS = [
    {"display": "live", "redirect": True, "frame0": ["a"], "threads": [[["stdout", 1]], [["refresh"], ["update", ["x", "y"], True]]]},
    {"display": "live", "redirect": True, "auto": True, "frame0": ["a", "b"], "threads": [[["stdout", 2], ["print", 3, 1]], [["stdout", 4]]]},
    {"display": "progress", "redirect": True, "threads": [[["stdout", 5]], [["advance", 1], ["refresh"]], [["stdout", 6]]]},
]
DEEP_PROGRAMS = [
    {"caches": "full", "threads": [[["print", 1, 1]], [["print", 2, 1]]]},
    {"caches": "cold", "styled": True, "threads": [[["print", 1, 1]], [["print", 2, 1]]]},
    {"caches": "cold", "styled": True, "record": True, "threads": [[["print", 3, 2]], [["log", 4]], [["print", 5, 1]]]},
    {"caches": "full", "styled": True, "threads": [[["print", 6, 1], ["print", 7, 1]], [["log", 8], ["print", 9, 2]]]},
]


class Exhaustive(Part):
    custom = True
    exhaustive = True
    budget = {"quick": (16, 1), "thorough": (16, 1)}

    def __init__(self, name, programs, what):
        self.name = name
        self.programs = programs
        self.rule = ("%s: every schedule with one preemption (quick) / also pairs of preemptions (thorough, capped) at every yield point of %d fixed programs; "
                     "non-trivial (distinct by construction) = schedules that switched threads inside a rich frame" % (what, len(programs)))

    def run_shard(self, tier, shard, nshards, seed, stats, deadline, known):
        n = 0
        nt = 0
        exposed_n = 0
        found = {}
        for pi, prog in enumerate(self.programs):
            probs = []
            steps, _, _ = run_program(prog, [], [0], probs)
            for clause, sig, detail in probs:
                found.setdefault(sig, ({"program": pi, "preempt": [], "tape": [0]}, clause, detail))
            nthreads = len(prog["threads"]) + (1 if prog.get("auto") else 0)
            stride = 1 if steps <= 1500 or tier == "thorough" else 2   # programs traced into the shared-state modules have many more yield points
            if prog.get("coarse"):
                kinds = []
                run_program(dict(prog, _kinds=kinds), [], [0], [])
                every = prog["coarse"] if tier == "quick" else max(1, prog["coarse"] // 8)
                points = [k for k, kd in enumerate(kinds) if kd != "line" or k % every == 0]
            else:
                points = range(0, steps, stride)
            scheds = [[(k, c)] for k in points for c in range(nthreads - 1)]
            if tier == "thorough":
                pairs = [[(a, 0), (b, cb)] for a in range(0, steps, 3) for b in range(a + 1, min(steps, a + 400), 5) for cb in range(nthreads - 1)]
                scheds += pairs[:12000]
            for si, sch in enumerate(scheds):
                if si % nshards != shard:
                    continue
                if time.time() > deadline:
                    stats.capped = True
                    break
                probs = []
                _, sw, exposed = run_program(prog, sch, [0, 1, 2], probs)
                n += 1
                nt += 1 if sw else 0
                exposed_n += 1 if exposed else 0
                for clause, sig, detail in probs:
                    if sig not in found:
                        found[sig] = ({"program": pi, "preempt": [list(x) for x in sch], "tape": [0, 1, 2]}, clause, detail)
        stats.evaluations += n
        stats.nontrivial_count_distinct += nt
        stats.extra["schedules_exposing_F2_window"] = exposed_n
        if not stats.capped:
            stats.done += 1
        stats.samples.append((1, {"shard": shard, "programs": len(self.programs), "schedules_run": n, "example": {"program": 0, "preempt": [[40, 0]]}}, "range"))
        for sig, (spec, clause, detail) in found.items():
            e = known.match(sig)
            if e:
                stats.excluded_known[e["id"]] = stats.excluded_known.get(e["id"], 0) + 1
                continue
            stats.found[sig] = {"spec": dict(spec, part_programs=self.name), "clause": clause, "detail": detail, "size": 1, "part": self.name}

    def replay(self, spec, ctx):
        probs = []
        run_program(self.programs[spec["program"]], spec["preempt"], spec["tape"], probs)
        for clause, sig, detail in probs:
            ctx.violation(clause, sig, detail)


class Generated(Part):
    name = "generated"
    rule = ("generated programs: 2-4 threads x 1-4 ops over print (1-3 lines), log, capture{1-2 prints}, and - with a Live or Progress display - update(frame, refresh), "
            "refresh, advance, stop; record on/off; x generated schedules (<= 6 preemptions, tie-break tape); non-trivial = the schedule switched threads inside a "
            "rich frame and >= 2 threads wrote")
    budget = {"quick": (16, 200), "thorough": (16, 5000)}
    chunk = 150

    def strategy(self, tier):
        @st.composite
        def prog(draw):
            display = draw(st.sampled_from([None, None, "live", "live", "progress"]))
            auto = display is not None and draw(st.booleans())
            transient = display is not None and draw(st.sampled_from([False, False, True]))
            caches = draw(st.sampled_from([None, None, None, "cold", "full"])) if display is None else None
            styled = draw(st.booleans()) if caches else False
            nthreads = draw(st.integers(2, 4))
            mid = [0]
            threads = []
            use_capture = display is None and draw(st.booleans())
            record_drawn = (not use_capture) and draw(st.booleans())
            for _ in range(nthreads):
                ops = []
                for _ in range(draw(st.integers(1, 4))):
                    choices = ["print", "print", "log"]
                    if record_drawn and not use_capture:
                        choices.append("export")
                    if use_capture:
                        choices.append("capture")
                    if display == "live":
                        choices += ["update", "update", "refresh", "stop"]
                    if display == "progress":
                        choices += ["advance", "refresh", "stop"]
                    k = draw(st.sampled_from(choices))
                    if k == "print":
                        mid[0] += 1
                        ops.append(["print", mid[0], draw(st.integers(1, 3))])
                    elif k == "log":
                        mid[0] += 1
                        ops.append(["log", mid[0]])
                    elif k == "capture":
                        ms = []
                        for _ in range(draw(st.integers(1, 2))):
                            mid[0] += 1
                            ms.append(mid[0])
                        ops.append(["capture", ms])
                    elif k == "export":
                        ops.append(["export", draw(st.sampled_from(["html", "text", "html-keep", "save-text", "save-html"]))])
                    elif k == "update":
                        ops.append(["update", ["u%d" % i for i in range(draw(st.integers(0, 4)))], draw(st.booleans())])
                    elif k == "advance":
                        ops.append(["advance", draw(st.integers(1, 3))])
                    else:
                        ops.append([k])
                threads.append(ops)
            p = {"display": display, "threads": threads, "record": record_drawn}
            if auto:
                p["auto"] = True
            if transient:
                p["transient"] = True
            if caches:
                p["caches"] = caches
                p["styled"] = styled
            if display == "live":
                p["frame0"] = ["f%d" % i for i in range(draw(st.integers(0, 3)))]
            return p

        pre = st.lists(st.tuples(st.one_of(st.integers(0, 900), st.integers(0, 4000)), st.integers(0, 3)).map(list), max_size=6)
        return st.builds(lambda p, pre, tape: {"prog": p, "preempt": pre, "tape": tape}, prog(), pre, st.lists(st.integers(0, 3), min_size=1, max_size=5))

    def check(self, spec, ctx):
        probs = []
        # a frame update after another thread has stopped the display cannot be drawn: the expected last frame is then undefined -> skip the frame comparison by not updating after stop
        steps, sw, exposed = run_program(spec["prog"], spec["preempt"], spec["tape"], probs)
        for clause, sig, detail in probs:
            ctx.violation(clause, sig, detail)
        writers = sum(1 for ops in spec["prog"]["threads"] if any(o[0] in ("print", "log", "update", "refresh") for o in ops))
        if sw and writers >= 2:
            ctx.nontrivial = True
        ctx.cls("display-%s" % spec["prog"]["display"])
        if spec["prog"].get("auto"):
            ctx.cls("auto-refresh-thread")
        if spec["prog"].get("caches"):
            ctx.cls("caches-%s" % spec["prog"]["caches"])
        if exposed:
            ctx.cls("f2-window-exposed")


PARTS = [Exhaustive("plain-exhaustive", PLAIN_PROGRAMS, "programs without a display (print/log/capture/record)"), Exhaustive("live-exhaustive", LIVE_PROGRAMS, "programs with a Live or Progress display"),
         Exhaustive("auto-exhaustive", AUTO_PROGRAMS, "programs whose display runs its own auto-refresh thread (scheduled like any other thread; transient or not; threads that stop it)"),
         Exhaustive("restart-exhaustive", RESTART_PROGRAMS, "programs in which one thread stops a transient display while another starts it again and redraws"),
         Exhaustive("big-exhaustive", BIG_PROGRAMS, "programs in which one print yields more than 2048 segments"),
         Exhaustive("redirect-exhaustive", REDIRECT_PROGRAMS, "programs in which threads write lines to sys.stdout while a display redirects it to the console"),
         Exhaustive("shared-state-exhaustive", DEEP_PROGRAMS, "programs printing (coloured) text with the library's process-wide caches emptied or at capacity, preempted also inside cells.py, _lru_cache.py, palette.py and color.py"),
         Exhaustive("opcode-exhaustive", OPCODE_PROGRAMS, "programs with a display whose frame renderable (live_render.py) is preempted at every byte-code instruction, not only at lines"),
         Generated()]
