"""Helper for C13 'first-use-interrupted': runs in a fresh interpreter. A width measurement - the very first of the process, or a later one after the strings of a prelude
have been measured undisturbed - is aborted by a KeyboardInterrupt raised at the K-th executed line of rich/cells.py / rich/_lru_cache.py; the program goes on; every width
measured afterwards (single characters, the interrupted string itself, the prelude strings, resizing and chopping of the interrupted string) must still be the table's.
argv: K, JSON (a string = the first string measured with cell_len, or {"pre": [...], "op": "cell_len"|"set"|"chop", "first": str, "n": int}).  Prints a JSON object."""
import json
import os
import sys

here = os.path.dirname(os.path.dirname(os.path.abspath(__file__)))
sys.path.insert(0, here)
rich_path = os.environ.get("VERIF_RICH_PATH", "/repo")
sys.path.insert(0, rich_path)

K = int(sys.argv[1])
scenario = json.loads(sys.argv[2])
if isinstance(scenario, str):
    scenario = {"first": scenario}   # the first string measured
first = scenario["first"]
pre = scenario.get("pre", [])
op = scenario.get("op", "cell_len")
arg_n = scenario.get("n", 3)

import rich.cells  # noqa: E402
import rich._lru_cache  # noqa: E402
from vp.oracles import cells as OC  # noqa: E402

files = {rich.cells.__file__, rich._lru_cache.__file__}
count = [0]


def tracer(frame, event, arg):
    if frame.f_code.co_filename in files:
        def local(f, e, a):
            if e == "line":
                count[0] += 1
                if count[0] == K:
                    raise KeyboardInterrupt
            return local
        return local
    return None


OC.table()
problems = []
for p in pre:  # undisturbed measurements before the one that is aborted
    if rich.cells.cell_len(p) != OC.width(p):
        problems.append("prelude: cell_len(%r) = %r, the table sum is %r" % (p, rich.cells.cell_len(p), OC.width(p)))
sys.settrace(tracer)
interrupted = False
try:
    if op == "set":
        rich.cells.set_cell_size(first, arg_n)
    elif op == "chop":
        rich.cells.chop_cells(first, max(2, arg_n))
    else:
        rich.cells.cell_len(first)
except KeyboardInterrupt:
    interrupted = True
finally:
    sys.settrace(None)

blocks = sorted({ord(c) >> 8 for c in first})
battery = [chr(cp) for b in blocks for cp in range(b << 8, (b << 8) + 256) if not 0xD800 <= cp <= 0xDFFF]
battery += [chr(cp) for cp in range(0, 0x30000, 97) if not 0xD800 <= cp <= 0xDFFF]
for ch in battery:
    for fn in (rich.cells.get_character_cell_size, rich.cells.cell_len):
        try:
            got = fn(ch)
        except Exception as e:  # noqa
            problems.append("%s(U+%04X) raised %r" % (fn.__name__, ord(ch), e))
            break
        if got != OC.cw(ch):
            problems.append("%s(U+%04X) = %r, the table says %r" % (fn.__name__, ord(ch), got, OC.cw(ch)))
            break
    if len(problems) >= 3:
        break
try:
    for s in [first, first] + list(pre) + [first]:
        again = rich.cells.cell_len(s)
        if again != OC.width(s):
            problems.append("cell_len(%r) = %r, the table sum is %r" % (s, again, OC.width(s)))
            break
    total = OC.width(first)
    for n in sorted({0, 1, total // 2, max(0, total - 1), total, total + 2, arg_n}):
        out = rich.cells.set_cell_size(first, n)
        if OC.width(out) != n or not (out.startswith(first) or first.startswith(out.rstrip(" ")) or first.startswith(out[:-1])):
            problems.append("set_cell_size(%r, %d) = %r: %d cells / not a prefix plus spaces" % (first, n, out, OC.width(out)))
            break
    for w in sorted({2, 7, max(2, arg_n)}):
        pieces = rich.cells.chop_cells(first, w)
        if "".join(pieces) != first or any(OC.width(p) > w for p in pieces):
            problems.append("chop_cells(%r, %d) = %r: pieces do not concatenate to the string or do not fit" % (first, w, pieces))
            break
except Exception as e:  # noqa
    problems.append("measuring %r again raised %r" % (first, e))
print(json.dumps({"interrupted": interrupted, "lines": count[0], "problems": problems}))
