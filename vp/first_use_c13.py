"""Helper for C13 'first-use-interrupted': runs in a fresh interpreter. The very first width measurement of the process is aborted by a KeyboardInterrupt raised at the
K-th executed line of rich/cells.py / rich/_lru_cache.py; the program goes on; every width measured afterwards must still be the table's. Prints a JSON object."""
import json
import os
import sys

here = os.path.dirname(os.path.dirname(os.path.abspath(__file__)))
sys.path.insert(0, here)
rich_path = os.environ.get("VERIF_RICH_PATH", "/repo")
sys.path.insert(0, rich_path)

K = int(sys.argv[1])
first = json.loads(sys.argv[2])   # the first string measured

import rich.cells  # noqa: E402
import rich._lru_cache  # noqa: E402
from vp.oracles import cells as OC  # noqa: E402

files = {rich.cells.__file__, rich._lru_cache.__file__}
count = [0]


def tracer(frame, event, arg):
    if frame.f_code.co_filename in files:
        def local(f, e, a):
            if e == "line":
                count[0] += 1
                if count[0] == K:
                    raise KeyboardInterrupt
            return local
        return local
    return None


OC.table()
sys.settrace(tracer)
interrupted = False
try:
    rich.cells.cell_len(first)
except KeyboardInterrupt:
    interrupted = True
finally:
    sys.settrace(None)

problems = []
blocks = sorted({ord(c) >> 8 for c in first})
battery = [chr(cp) for b in blocks for cp in range(b << 8, (b << 8) + 256) if not 0xD800 <= cp <= 0xDFFF]
battery += [chr(cp) for cp in range(0, 0x30000, 97) if not 0xD800 <= cp <= 0xDFFF]
for ch in battery:
    for fn in (rich.cells.get_character_cell_size, rich.cells.cell_len):
        try:
            got = fn(ch)
        except Exception as e:  # noqa
            problems.append("%s(U+%04X) raised %r" % (fn.__name__, ord(ch), e))
            break
        if got != OC.cw(ch):
            problems.append("%s(U+%04X) = %r, the table says %r" % (fn.__name__, ord(ch), got, OC.cw(ch)))
            break
    if len(problems) >= 3:
        break
try:
    again = rich.cells.cell_len(first)
    if again != OC.width(first):
        problems.append("cell_len(%r) = %r, the table sum is %r" % (first, again, OC.width(first)))
except Exception as e:  # noqa
    problems.append("cell_len(%r) raised %r" % (first, e))
print(json.dumps({"interrupted": interrupted, "lines": count[0], "problems": problems}))
