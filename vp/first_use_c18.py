"""Helper for C18 'first-use-interrupted': runs in a fresh interpreter. The very first colour conversion of the process is aborted by a KeyboardInterrupt raised at the
K-th executed line of color.py / palette.py; the program goes on; every conversion made afterwards must still be right. Prints a JSON list of problems."""
import json
import os
import sys

here = os.path.dirname(os.path.dirname(os.path.abspath(__file__)))
sys.path.insert(0, here)
rich_path = os.environ.get("VERIF_RICH_PATH", "/repo")
sys.path.insert(0, rich_path)

K = int(sys.argv[1])
first = sys.argv[2]   # "indexed" | "rgb"
sysname = sys.argv[3]

import rich.color  # noqa: E402
import rich.palette  # noqa: E402
from rich.color import Color, ColorSystem  # noqa: E402
from vp.props.c18 import palettes, dist  # noqa: E402

files = {rich.color.__file__, rich.palette.__file__}
count = [0]


def tracer(frame, event, arg):
    if frame.f_code.co_filename in files:
        def local(f, e, a):
            if e == "line":
                count[0] += 1
                if count[0] == K:
                    raise KeyboardInterrupt
            return local
        return local
    return None


system = ColorSystem[sysname]
sys.settrace(tracer)
interrupted = False
try:
    (Color.from_ansi(200) if first == "indexed" else Color.from_rgb(200, 100, 50)).downgrade(system)
except KeyboardInterrupt:
    interrupted = True
finally:
    sys.settrace(None)

std, win, eight = palettes()
pal = std if sysname == "STANDARD" else win
problems = []
sources = [("idx", n, eight[n]) for n in range(16, 256)] + [("rgb", None, (r, g, b)) for r in range(0, 256, 51) for g in range(0, 256, 51) for b in range(0, 256, 51)]
for kind, n, rgb in sources:
    c = Color.from_ansi(n) if kind == "idx" else Color.from_rgb(*rgb)
    try:
        d = c.downgrade(system)
    except Exception as e:  # noqa
        problems.append("%r -> %s raised %r" % (c, sysname, e))
        break
    if d.number is None or not 0 <= d.number <= 15:
        problems.append("%r -> %s gave %r" % (c, sysname, d))
        break
    if dist(rgb, pal[d.number]) != min(dist(rgb, p) for p in pal):
        problems.append("%r -> %s picked %d, not a nearest entry" % (c, sysname, d.number))
        if len(problems) >= 3:
            break
print(json.dumps({"interrupted": interrupted, "lines": count[0], "problems": problems}))
