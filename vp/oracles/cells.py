"""Oracle 4.1: cell width of every code point by a linear scan of rich's width table,
materialised once into a bytearray.  Independent of rich.cells (no bisection, no cache)."""
import sys

_W = None


def table():
    global _W
    if _W is None:
        from rich._cell_widths import CELL_WIDTHS

        w = bytearray(b"\x01") * (sys.maxunicode + 1)
        for start, end, width in CELL_WIDTHS:  # linear scan; later rows never overlap earlier ones (checked in C13)
            ww = 0 if width == -1 else width
            for cp in range(start, end + 1):
                w[cp] = ww
        _W = w
    return _W


def cw(ch):
    return table()[ord(ch)]


def width(s):
    w = table()
    return sum(w[ord(c)] for c in s)
