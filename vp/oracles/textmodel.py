"""Oracle 4.5: reference model of a styled text value.

A model is (base, chars) where base is a style spec (or None) and chars is a list of
(character, overlay) with overlay = tuple of style specs in precedence order, or None for
"inserted character whose style the property does not pin down" (padding, tab fill, ellipsis).
Everything here is ordinary list / str manipulation; nothing calls rich.Text.
"""
import re
from . import cells as OC
from ..gen import styles as GS

STRIPPED = "\x08\x0b\x0c\r"


def strip(s):
    return "".join(c for c in s if c not in STRIPPED)


def freeze(spec):
    """style spec -> hashable."""
    if spec is None:
        return None
    return (tuple(sorted(spec["attrs"].items())), spec["color"], spec["bgcolor"], spec["link"])


def thaw(fs):
    if fs is None:
        return None
    return {"attrs": dict(fs[0]), "color": fs[1], "bgcolor": fs[2], "link": fs[3]}


class TM:
    __slots__ = ("base", "chars", "tab")

    def __init__(self, base=None, chars=None, tab=8):
        self.base = base  # frozen spec or None
        self.chars = chars if chars is not None else []
        self.tab = tab    # the text's own tab size, or None when the operation that produced it does not carry one over

    # ---- construction
    @classmethod
    def make(cls, s, base=None, spans=()):
        s = strip(s)
        chars = [[c, []] for c in s]
        for a, b, st in spans:
            for i in range(max(0, a), min(len(s), b)):
                chars[i][1].append(freeze(st))
        return cls(freeze(base), [(c, tuple(o)) for c, o in chars])

    def copy(self):
        return TM(self.base, list(self.chars), self.tab)

    @property
    def plain(self):
        return "".join(c for c, _ in self.chars)

    def __len__(self):
        return len(self.chars)

    def views(self):
        """[(char, style_view) | (char, None) for wildcard]."""
        out = []
        for c, o in self.chars:
            if o is None:
                out.append((c, None))
            else:
                out.append((c, GS.spec_view(GS.merge(thaw(self.base), *[thaw(x) for x in o]))))
        return out

    # ---- editing
    def with_chars(self, chars):
        return TM(self.base, chars, self.tab)

    def without_tab(self):
        return TM(self.base, self.chars, None)

    def append_str(self, s, style=None):
        s = strip(s)
        o = (freeze(style),) if style is not None else ()
        return self.with_chars(self.chars + [(c, o) for c in s])

    def append_model(self, other):
        add = []
        for c, o in other.chars:
            add.append((c, None if o is None else ((other.base,) if other.base is not None else ()) + o))
        return self.with_chars(self.chars + add)

    def slice(self, a, b):
        return self.with_chars(self.chars[a:b])

    def wild(self, s):
        return [(c, None) for c in s]

    def stylize(self, style, start, end):
        n = len(self.chars)
        if start < 0:
            start = n + start
        if end is None:
            end = n
        if end < 0:
            end = n + end
        if start >= n or end <= start:
            return self
        fs = freeze(style)
        chars = list(self.chars)
        for i in range(max(0, start), min(n, end)):
            c, o = chars[i]
            if o is not None:
                chars[i] = (c, o + (fs,))
        return self.with_chars(chars)

    def add_spans(self, spans):
        m = self
        for a, b, st in spans:
            if b > a:
                chars = list(m.chars)
                for i in range(max(0, a), min(len(chars), b)):
                    c, o = chars[i]
                    if o is not None:
                        chars[i] = (c, o + (freeze(st),))
                m = m.with_chars(chars)
        return m

    def stylize_before(self, style, start, end):
        """Like stylize(), but the style goes UNDER the styles the characters already carry (still above the base style)."""
        n = len(self.chars)
        if start < 0:
            start = n + start
        if end is None:
            end = n
        if end < 0:
            end = n + end
        if start >= n or end <= start:
            return self
        fs = freeze(style)
        chars = list(self.chars)
        for i in range(max(0, start), min(n, end)):
            c, o = chars[i]
            if o is not None:
                chars[i] = (c, (fs,) + o)
        return self.with_chars(chars)

    def copy_styles(self, other):
        """The styles `other` applied to its characters (not its base style) go on top of this value's, in other's order.
        Same length required.  A character whose style is not pinned down on either side stays not pinned down."""
        if len(other.chars) != len(self.chars):
            raise ValueError("copy_styles: lengths differ")
        chars = []
        for (c, o), (_, oo) in zip(self.chars, other.chars):
            chars.append((c, None if o is None or oo is None else o + oo))
        return self.with_chars(chars)

    def cut_candidates(self, n):
        """Possible results of 'resize to n cells by cropping' (cell-aware): list of char lists.
        The kept part is a prefix whose width is n, or n-1 followed by one space that stands for the
        first half of the wide character that was cut (it keeps that character's style)."""
        out = []
        w = 0
        # all prefixes k with width(prefix)==n, or width==n-1 with next char wide
        for k in range(len(self.chars) + 1):
            if k > 0:
                w += OC.cw(self.chars[k - 1][0])
            if w > n:
                break
            if w == n:
                out.append(list(self.chars[:k]))
            elif w == n - 1 and k < len(self.chars) and OC.cw(self.chars[k][0]) == 2:
                out.append(list(self.chars[:k]) + [(" ", self.chars[k][1])])
        return out

    def width(self):
        return sum(OC.cw(c) for c, _ in self.chars)
