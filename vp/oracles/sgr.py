"""Oracle 4.2: independent SGR / OSC-8 stream interpreter (hand-written character loop, no regex shared with rich).

feed(text) -> list of events:
   ("ch", char, frozenset(attrs), fg, bg, link)
   ("ctl", text)            other CSI sequences, BEL, CR ... (reported verbatim)
Colours are canonical: ("default",) | ("idx", n) | ("rgb", r, g, b).
"""

ATTR_ON = {1: "bold", 2: "dim", 3: "italic", 4: "underline", 5: "blink", 6: "blink2", 7: "reverse", 8: "conceal", 9: "strike",
           21: "underline2", 51: "frame", 52: "encircle", 53: "overline"}
ATTR_OFF = {22: ("bold", "dim"), 23: ("italic",), 24: ("underline", "underline2"), 25: ("blink", "blink2"), 27: ("reverse",), 28: ("conceal",),
            29: ("strike",), 54: ("frame", "encircle"), 55: ("overline",)}
DEFAULT = ("default",)


class BadStream(Exception):
    pass


class Interp:
    def __init__(self):
        self.attrs = set()
        self.fg = DEFAULT
        self.bg = DEFAULT
        self.link = None
        self.link_params = None
        self.events = []

    def reset_state(self):
        return (frozenset(), DEFAULT, DEFAULT, None)

    def state(self):
        return (frozenset(self.attrs), self.fg, self.bg, self.link)

    def sgr(self, params):
        if params == "":
            codes = [0]
        else:
            codes = []
            for p in params.split(";"):
                if p == "":
                    codes.append(0)
                elif p.isascii() and p.isdigit():
                    codes.append(int(p))
                else:
                    raise BadStream("non-numeric SGR parameter %r" % params)
        i = 0
        while i < len(codes):
            c = codes[i]
            if c == 0:
                self.attrs.clear()
                self.fg = DEFAULT
                self.bg = DEFAULT
            elif c in ATTR_ON:
                self.attrs.add(ATTR_ON[c])
            elif c in ATTR_OFF:
                for a in ATTR_OFF[c]:
                    self.attrs.discard(a)
            elif 30 <= c <= 37:
                self.fg = ("idx", c - 30)
            elif 90 <= c <= 97:
                self.fg = ("idx", c - 90 + 8)
            elif 40 <= c <= 47:
                self.bg = ("idx", c - 40)
            elif 100 <= c <= 107:
                self.bg = ("idx", c - 100 + 8)
            elif c == 39:
                self.fg = DEFAULT
            elif c == 49:
                self.bg = DEFAULT
            elif c in (38, 48):
                if i + 1 >= len(codes):
                    raise BadStream("truncated extended colour in %r" % params)
                mode = codes[i + 1]
                if mode == 5:
                    if i + 2 >= len(codes) or not 0 <= codes[i + 2] <= 255:
                        raise BadStream("bad 256-colour parameter in %r" % params)
                    col = ("idx", codes[i + 2])
                    i += 2
                elif mode == 2:
                    if i + 4 >= len(codes) or not all(0 <= v <= 255 for v in codes[i + 2:i + 5]):
                        raise BadStream("bad truecolor parameter in %r" % params)
                    col = ("rgb", codes[i + 2], codes[i + 3], codes[i + 4])
                    i += 4
                else:
                    raise BadStream("unknown extended colour mode in %r" % params)
                if c == 38:
                    self.fg = col
                else:
                    self.bg = col
            else:
                raise BadStream("unknown SGR code %d in %r" % (c, params))
            i += 1

    def feed(self, s):
        i = 0
        n = len(s)
        ev = self.events
        while i < n:
            ch = s[i]
            if ch == "\x1b":
                if i + 1 >= n:
                    raise BadStream("dangling ESC")
                nx = s[i + 1]
                if nx == "[":
                    j = i + 2
                    while j < n and not ("@" <= s[j] <= "~"):
                        j += 1
                    if j >= n:
                        raise BadStream("unterminated CSI %r" % s[i:i + 12])
                    params, final = s[i + 2:j], s[j]
                    if final == "m":
                        self.sgr(params)
                    else:
                        ev.append(("ctl", s[i:j + 1]))
                    i = j + 1
                    continue
                if nx == "]":
                    j = i + 2
                    end = None
                    while j < n:
                        if s[j] == "\x07":
                            end = (j, j + 1)
                            break
                        if s[j] == "\x1b" and j + 1 < n and s[j + 1] == "\\":
                            end = (j, j + 2)
                            break
                        j += 1
                    if end is None:
                        raise BadStream("unterminated OSC %r" % s[i:i + 20])
                    body = s[i + 2:end[0]]
                    if body.startswith("8;"):
                        rest = body[2:]
                        k = rest.find(";")
                        if k < 0:
                            raise BadStream("malformed OSC 8 %r" % body)
                        params, uri = rest[:k], rest[k + 1:]
                        self.link = uri if uri else None
                        self.link_params = params if uri else None
                    else:
                        ev.append(("ctl", s[i:end[1]]))
                    i = end[1]
                    continue
                raise BadStream("unknown escape %r" % s[i:i + 4])
            if ch in "\x07\r\x08\x0b\x0c" or (ch < " " and ch not in "\n\t"):
                ev.append(("ctl", ch))
            else:
                ev.append(("ch", ch) + self.state())
            i += 1
        return ev


def interpret(s):
    it = Interp()
    it.feed(s)
    return it.events, it.state()


def visible(s):
    """Visible characters of a stream (everything except escape sequences and control codes)."""
    ev, _ = interpret(s)
    return "".join(e[1] for e in ev if e[0] == "ch")
