"""Oracle 4.3: a VT100-subset screen model.

Unbounded list of rows with a viewport of height H at the bottom, width W, deferred wrap at the last column,
LF = newline + carriage return (tty ONLCR), CR, CSI n A clamped at the top of the viewport, CSI 2K, CSI ?25 h/l;
SGR and OSC sequences are skipped.  Every character is one cell (the C10/C11 alphabets are single-width).
"""


class VTError(Exception):
    pass


class VT:
    def __init__(self, W, H):
        self.W, self.H = W, H
        self.lines = [[]]
        self.row = 0
        self.col = 0
        self.top = 0
        self.pending = False
        self.cursor_visible = True
        self.min_row = 0
        self.cursor_events = []

    def _line(self, r):
        while len(self.lines) <= r:
            self.lines.append([])
        return self.lines[r]

    def _newline(self):
        self.row += 1
        self.col = 0
        self.pending = False
        self._line(self.row)
        if self.row - self.top >= self.H:
            self.top = self.row - self.H + 1

    def reset_min(self):
        self.min_row = self.row

    def feed(self, s):
        i = 0
        n = len(s)
        while i < n:
            ch = s[i]
            if ch == "\x1b":
                if i + 1 < n and s[i + 1] == "[":
                    j = i + 2
                    while j < n and not ("@" <= s[j] <= "~"):
                        j += 1
                    if j >= n:
                        raise VTError("unterminated CSI %r" % s[i:i + 10])
                    self.csi(s[i + 2:j], s[j])
                    i = j + 1
                    continue
                if i + 1 < n and s[i + 1] == "]":
                    j = s.find("\x1b\\", i)
                    if j < 0:
                        raise VTError("unterminated OSC")
                    i = j + 2
                    continue
                raise VTError("unknown escape %r" % s[i:i + 6])
            if ch == "\r":
                self.col = 0
                self.pending = False
            elif ch == "\n":
                self._newline()
            elif ch == "\x07":
                pass
            else:
                if self.pending:
                    self._newline()
                ln = self._line(self.row)
                while len(ln) <= self.col:
                    ln.append(" ")
                ln[self.col] = ch
                if self.col == self.W - 1:
                    self.pending = True
                else:
                    self.col += 1
            i += 1
            if self.row < self.min_row:
                self.min_row = self.row

    def csi(self, p, c):
        if c == "A":
            k = int(p or 1)
            self.row = max(self.top, self.row - k)
            self.pending = False
            if self.row < self.min_row:
                self.min_row = self.row
        elif c == "K":
            if p != "2":
                raise VTError("unsupported erase %r" % p)
            self._line(self.row)[:] = []
        elif c in "hl" and p == "?25":
            self.cursor_visible = c == "h"
            self.cursor_events.append(c)
        elif c == "m":
            pass
        elif c in "JH":
            pass
        else:
            raise VTError("unsupported CSI %r %r" % (p, c))

    def screen(self):
        rows = ["".join(l).rstrip() for l in self.lines]
        while rows and rows[-1] == "":
            rows.pop()
        return rows
