"""Oracle 4.4: a deterministic scheduler that serialises real threads.

Exactly one worker runs at a time; every other worker is parked on its own semaphore.  Yield points:
  * every `line` event of frames whose file is in `files` (per-thread sys.settrace inside the worker),
  * acquire / release of cooperative lock proxies (CoopRLock) swapped in for rich's locks,
  * explicit yield_point() calls from harness file objects (every write / flush).
A schedule is {step -> choice}: at yield point number `step` the running worker is preempted in favour of
runnable[choice % len(runnable)].  When the running worker blocks or ends, the next one is chosen by the
tie-break tape.  "Some worker unfinished and none runnable" is a deadlock verdict.
"""
import sys
import threading


class Deadlock(Exception):
    pass


class HarnessTimeout(Exception):
    pass


class Sched:
    def __init__(self, preempt=None, files=(), tape=(), max_steps=400000):
        self.preempt = dict(preempt or {})
        self.files = set(files)
        self.tape = list(tape) or [0]
        self.tape_i = 0
        self.step = 0
        self.workers = []
        self.cur = None  # None: the main thread is running (outside the scheduled section)
        self.done_evt = threading.Event()
        self.error = None
        self.trace = []  # (step, kind, from, to) for every switch caused by a preemption
        self.switch_in_rich = 0
        self.max_steps = max_steps
        self.active = False
        self.aborted = False
        self.kinds = None  # set to a list to have the kind of every yield point recorded (used to pick preemption points of a long run)
        self.opcode_files = set()  # files in which every executed byte-code instruction is a yield point (races inside one source line)

    # ------------------------------------------------------------------ set-up
    def add(self, fn, name=None):
        w = Worker(self, len(self.workers), fn, name or "T%d" % len(self.workers))
        self.workers.append(w)
        return w

    def _pick(self, candidates):
        c = candidates[self.tape[self.tape_i % len(self.tape)] % len(candidates)]
        self.tape_i += 1
        return c

    def run(self, timeout=60.0):
        if not self.workers:
            return
        self.active = True
        for w in self.workers:
            w.thread.start()
        first = self._pick(self.workers)
        self.cur = first
        first.go.release()
        ok = self.done_evt.wait(timeout)
        self.active = False
        self.cur = None
        if not ok or self.error is not None:
            # deadlock / time-out verdict: the parked workers would stay parked for ever (and their threads pile up over thousands of schedules): let them unwind
            self.aborted = True
            for w in self.workers:
                w.go.release()
                w.go.release()
        if not ok:
            raise HarnessTimeout("scheduled section did not finish in %.0fs (step %d)" % (timeout, self.step))
        if self.error is not None:
            raise self.error

    # ------------------------------------------------------------------ scheduling
    def runnable(self, exclude=None):
        return [w for w in self.workers if not w.finished and w.blocked_on is None and w is not exclude]

    def _switch_to(self, me, target):
        self.cur = target
        target.go.release()
        if me is not None and not me.finished:
            me.go.acquire()
            if self.aborted:
                raise SystemExit

    def yield_point(self, kind):
        me = self.cur
        if me is None or not self.active:
            return
        if threading.current_thread() is not me.thread:
            return  # a foreign thread (not scheduled) touched a proxy: ignore
        s = self.step
        self.step += 1
        if self.kinds is not None:
            self.kinds.append(kind[0])
        if s > self.max_steps:
            self.error = HarnessTimeout("more than %d yield points" % self.max_steps)
            self.done_evt.set()
            raise SystemExit
        choice = self.preempt.get(s)
        if choice is not None:
            others = self.runnable(exclude=me)
            if others:
                t = others[choice % len(others)]
                self.trace.append((s, kind, me.idx, t.idx))
                if kind[0] == "line":
                    self.switch_in_rich += 1
                self._switch_to(me, t)

    def block(self, me, lock):
        me.blocked_on = lock
        others = self.runnable(exclude=me)
        if not others:
            self.error = Deadlock("deadlock at step %d: %s" % (self.step, ", ".join("%s waits for %s held by %s" % (w.name, getattr(w.blocked_on, "name", "?"), getattr(getattr(w.blocked_on, "owner", None), "name", "?")) for w in self.workers if w.blocked_on is not None)))
            self.done_evt.set()
            raise SystemExit
        self._switch_to(me, self._pick(others))

    # ------------------------------------------------------------------ threads created by the code under test
    def spawn(self, fn, name=None):
        """Register and start a worker while the scheduled section is running (e.g. a helper thread the code under test starts)."""
        w = Worker(self, len(self.workers), fn, name or "S%d" % len(self.workers))
        self.workers.append(w)
        w.thread.start()  # parks on its semaphore until it is chosen
        return w

    def join(self, worker):
        me = self.cur
        if me is None or not self.active:
            worker.thread.join()
            return
        self.yield_point(("join", worker.name))
        me = self.cur
        while not worker.finished:
            self.block(me, ("join", worker))
            me = self.cur

    def forced_yield(self, kind):
        """The running worker gives way to another runnable worker if there is one (a timed wait that has not expired yet)."""
        me = self.cur
        if me is None or not self.active:
            return
        self.step += 1
        others = self.runnable(exclude=me)
        if others:
            self._switch_to(me, self._pick(others))

    def finish(self, me):
        me.finished = True
        for w in self.workers:
            if isinstance(w.blocked_on, tuple) and w.blocked_on[0] == "join" and w.blocked_on[1] is me:
                w.blocked_on = None
        others = self.runnable()
        if others:
            nxt = self._pick(others)
            self.cur = nxt
            nxt.go.release()
        elif all(w.finished for w in self.workers):
            self.done_evt.set()
        else:
            self.error = Deadlock("deadlock: %s blocked after every other thread finished" % ", ".join(w.name for w in self.workers if not w.finished))
            self.done_evt.set()


class Worker:
    def __init__(self, s, idx, fn, name):
        self.s = s
        self.idx = idx
        self.fn = fn
        self.name = name
        self.go = threading.Semaphore(0)
        self.finished = False
        self.blocked_on = None
        self.exc = None
        self.thread = threading.Thread(target=self._run, daemon=True, name="vp-sched-" + name)

    def _tracer(self, frame, event, arg):
        if frame.f_code.co_filename in self.s.files:
            if frame.f_code.co_filename in self.s.opcode_files:
                frame.f_trace_opcodes = True
            return self._local
        return None

    def _local(self, frame, event, arg):
        if event == "line":
            self.s.yield_point(("line", frame.f_code.co_name, frame.f_lineno))
        elif event == "opcode":
            self.s.yield_point(("opcode", frame.f_code.co_name, frame.f_lineno, frame.f_lasti))
        return self._local

    def _run(self):
        self.go.acquire()
        if self.s.aborted:
            self.finished = True
            return
        sys.settrace(self._tracer)
        try:
            self.fn()
        except SystemExit:
            pass
        except BaseException as e:  # noqa
            self.exc = e
        finally:
            sys.settrace(None)
            if self.s.aborted:
                self.finished = True
            elif self.s.error is None or not isinstance(self.s.error, (Deadlock, HarnessTimeout)):
                self.s.finish(self)


class CoopRLock:
    """Re-entrant lock proxy whose waiting is visible to the scheduler."""

    def __init__(self, s, name="lock"):
        self.s = s
        self.name = name
        self.owner = None
        self.count = 0
        self.acquisitions = 0

    def acquire(self, blocking=True, timeout=-1):
        s = self.s
        if s.cur is None or not s.active:
            # main thread outside the scheduled section
            self.owner = "main"
            self.count += 1
            return True
        s.yield_point(("acquire", self.name))
        me = s.cur
        while self.owner is not None and self.owner is not me:
            if not blocking:
                return False
            s.block(me, self)
            me = s.cur
        self.owner = me
        self.count += 1
        self.acquisitions += 1
        return True

    def release(self):
        s = self.s
        self.count -= 1
        if self.count <= 0:
            self.count = 0
            self.owner = None
            for w in s.workers:
                if w.blocked_on is self:
                    w.blocked_on = None
        if s.cur is not None and s.active:
            s.yield_point(("release", self.name))

    def __enter__(self):
        self.acquire()
        return self

    def __exit__(self, *a):
        self.release()


class CoopEvent:
    """threading.Event stand-in whose waiting is visible to the scheduler. A timed wait() that finds the event unset gives way to
    another runnable worker once and then reports the event's state (the timer expires at an arbitrary later moment)."""

    def __init__(self, s, name="event", expire_when_alone=False, max_waits=60):
        self.s = s
        self.name = name
        self._flag = False
        self._waits = 0
        # a periodic helper (refresh thread) would loop for ever once every other worker has finished: its timed wait then reports the event as set, as does
        # the max_waits-th wait (the helper ends its loop early; the code that owns it still stops and joins it as usual)
        self.expire_when_alone = expire_when_alone
        self.max_waits = max_waits

    def is_set(self):
        return self._flag

    def set(self):
        self._flag = True
        for w in self.s.workers:
            if w.blocked_on is self:
                w.blocked_on = None
        if self.s.cur is not None and self.s.active:
            self.s.yield_point(("event-set", self.name))

    def clear(self):
        self._flag = False

    def wait(self, timeout=None):
        s = self.s
        if s.cur is None or not s.active:
            return self._flag
        if self._flag:
            return True
        if timeout is None:
            me = s.cur
            while not self._flag:
                s.block(me, self)
                me = s.cur
            return True
        # every other timed wait "expires at once" (the waiter carries on without giving way), the others give way to another worker:
        # a helper thread with a short period thus alternates between running its loop body and letting the other workers run
        self._waits += 1
        if self.expire_when_alone:
            me = s.cur
            if self._waits > self.max_waits or not any((not w.finished) and w is not me for w in s.workers):
                return True
        if self._waits % 2 == 1:
            s.yield_point(("event-wait", self.name))
            return self._flag
        s.forced_yield(("event-wait", self.name))
        return self._flag
