"""Read back per-character effective styles of a rich Text / of rendered segments (used by C02, C04, C05...)."""
from ..gen import styles as GS

_console = None


def console():
    global _console
    if _console is None:
        import io
        from rich.console import Console

        _console = Console(file=io.StringIO(), width=200, color_system="truecolor", force_terminal=True, legacy_windows=False, _environ={})
    return _console


def char_styles(text, con=None):
    """[(char, style_view)] for a Text, via Text.render (spans folded in order over the base style)."""
    con = con or console()
    out = []
    for seg in text.render(con):
        sv = GS.style_view(seg.style)
        for ch in seg.text:
            out.append((ch, sv))
    return out


def seg_chars(segments):
    out = []
    for seg in segments:
        if seg.is_control:
            continue
        sv = GS.style_view(seg.style)
        for ch in seg.text:
            out.append((ch, sv))
    return out
