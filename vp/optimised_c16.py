"""Helper for C16 'optimised-interpreter': started with `python -O` (assert statements are compiled away, __debug__ is False). Reads a JSON list of round-trip cases
on stdin, applies the ordinary round-trip check of C16 to each in this interpreter and prints a JSON list with one entry per case: [] or [[clause, sig, detail], ...]."""
import json
import os
import sys

here = os.path.dirname(os.path.dirname(os.path.abspath(__file__)))
sys.path.insert(0, here)
sys.path.insert(0, os.environ.get("VERIF_RICH_PATH", "/repo"))

from vp.core import Ctx, SutError  # noqa: E402
from vp.props import c16  # noqa: E402

part = [p for p in c16.PARTS if p.name == "roundtrip"][0]
cases = json.load(sys.stdin)
res = []
for spec in cases:
    ctx = Ctx()
    try:
        part.check(spec, ctx)
    except SutError as e:
        ctx.violation("unexpected-exception", "exc/" + e.bucket, repr(e))
    res.append([[v.clause, v.sig, v.detail[:600]] for v in ctx.violations])
print(json.dumps({"debug": __debug__, "results": res}))
