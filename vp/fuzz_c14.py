"""atheris target for C14 (thorough tier): bytes -> (entry selector, UTF-8 text). Run as: python -B -m vp.fuzz_c14 <corpus dir> -runs=N ..."""
import os
import sys

sys.dont_write_bytecode = True
HERE = os.path.dirname(os.path.dirname(os.path.abspath(__file__)))
sys.path.append(os.path.join(HERE, ".deps"))
try:
    import atheris
except Exception as e:  # noqa
    print("ATHERIS-UNAVAILABLE %r" % (e,))
    sys.exit(0)

RICH = os.environ.get("VERIF_RICH_PATH", "/repo")
sys.path.insert(0, RICH)
with atheris.instrument_imports(include=["rich"]):
    import rich.color
    import rich.style
    import rich.markup
    import rich.ansi
    import rich.text
    import rich.console
    import rich.cells
    import rich._wrap

from vp.props import c14  # noqa: E402
from vp.core import SutError  # noqa: E402

ENTRIES = sum(c14.ENTRY.values(), [])
COUNT = [0]


def clear_caches():
    from rich.color import Color
    from rich.style import Style

    Color.parse.cache_clear()
    Style.parse.cache_clear()
    Style.normalize.cache_clear()


def TestOneInput(data):
    if not data:
        return
    COUNT[0] += 1
    if COUNT[0] % 10000 == 0:
        clear_caches()
    entry = ENTRIES[data[0] % len(ENTRIES)]
    s = data[1:].decode("utf-8", "replace")
    c14.run_entry(entry, s)  # raises SutError for an undocumented exception -> libFuzzer saves the input


if __name__ == "__main__":
    atheris.Setup(sys.argv, TestOneInput)
    atheris.Fuzz()
