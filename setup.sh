#!/bin/sh
# Offline setup: make sure hypothesis (required), numpy and atheris (optional accelerators) are importable.
# Everything comes from /opt/veriftools/wheels; nothing is fetched.
set -u
cd "$(dirname "$0")"
PY=/venv/bin/python
WH=/opt/veriftools/wheels
mkdir -p .deps
$PY -c "import hypothesis" 2>/dev/null || /venv/bin/pip install -q --no-index --find-links $WH hypothesis 2>/dev/null \
  || /venv/bin/pip install -q --no-index --find-links $WH --target .deps hypothesis
for pkg in numpy atheris; do
  PYTHONPATH=.deps $PY -c "import $pkg" 2>/dev/null || /venv/bin/pip install -q --no-index --find-links $WH --target .deps $pkg 2>/dev/null || echo "setup: optional package $pkg not installable (checks fall back)"
done
PYTHONPATH=.deps $PY -c "import hypothesis; print('setup: hypothesis', hypothesis.__version__)" || exit 1
exit 0
